"""Value-set semantics of qtools data types over (mantissa, exponent) pairs: value = m * 2^e.

Harness-side specification: what values a type *can hold* is defined here from the quantizers'
semantics (fixed point: two's-complement codes times 2^-frac; po2: +-2^e with e in the exponent
interval; ternary/binary: their literal sets), never from the code under test - except that the
exponent interval of a po2 *type object* is read through the real get_exp(), which is how every
consumer in qtools interprets it.
"""
import z3
from . import pysym
from .pysym import SymInt, lift


def p2(e, lo=0, hi=80):
  return pysym.pow2_expr(e, lo, hi)


class Val(object):
  """a symbolic value m*2^e together with the constraint that it belongs to an operand type"""

  def __init__(self, m, e, member, most_negative, name):
    self.m, self.e, self.member, self.most_negative, self.name = m, e, member, most_negative, name


def fixed_operand(q, tag):
  b, i, s = lift(q.bits), lift(q.int_bits), lift(q.is_signed)
  m = z3.Int("m_" + tag)
  mag = b - s
  member = z3.And(m >= -s * p2(mag), m <= p2(mag) - 1)
  return Val(m, -(b - s - i), member, z3.And(s == 1, m == -p2(mag)), "fixed")


def po2_operand(q, tag, exp_interval):
  """exp_interval: (min_exp_magnitude, max_exp) as produced by the real get_exp(q)"""
  mn, mx = lift(exp_interval[0]), lift(exp_interval[1])
  m, e = z3.Int("m_" + tag), z3.Int("e_" + tag)
  s = lift(q.is_signed)
  member = z3.And(z3.Or(m == 1, z3.And(s != 0, m == -1)), e >= -mn, e <= mx)
  # "most negative" value of a signed po2 type: -2^max_exp (the overflow exception of C16 is read generously)
  return Val(m, e, member, z3.And(m == -1, e == mx), "po2")


def literal_operand(values, tag):
  m = z3.Int("m_" + tag)
  return Val(m, z3.IntVal(0), z3.Or(*[m == v for v in values]), (m == min(values)) if min(values) < 0 else z3.BoolVal(False), "lit")


def member_fixed(m, e, bits, int_bits, signed, dmax=70):
  """m*2^e representable as a two's-complement code with the given layout"""
  b, i, s = lift(bits), lift(int_bits), lift(signed)
  d = e + (b - s - i)                      # code = m * 2^d
  mag = b - s
  lo, hi = -s * p2(mag), p2(mag) - 1
  cases = []
  for dd in range(-dmax, dmax + 1):
    if dd >= 0:
      k = m * (2 ** dd)
      cases.append(z3.And(d == dd, k >= lo, k <= hi))
    else:
      den = 2 ** (-dd)
      cases.append(z3.And(d == dd, m % den == 0, m / den >= lo, m / den <= hi))
  return z3.And(d >= -dmax, d <= dmax, mag >= 0, z3.Or(*cases)), z3.And(d >= -dmax, d <= dmax)


def member_po2(m, e, signed, exp_interval):
  mn, mx = lift(exp_interval[0]), lift(exp_interval[1])
  s = lift(signed)
  return z3.And(z3.Or(m == 1, z3.And(s != 0, m == -1)), e >= -mn, e <= mx)
