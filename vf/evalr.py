"""Concrete (numpy float32) evaluation and z3-Real relaxation of vf.ir terms."""
import numpy as np
from . import ir

F = np.float32
TINY = F(2.0 ** -126)


def flush(v):
  v = F(v)
  if v != 0 and abs(v) < TINY:
    return F(-0.0) if np.signbit(v) else F(0.0)
  return v


def _topo(roots):
  order, seen = [], set()
  stack = [(r, False) for r in roots]
  while stack:
    n, ex = stack.pop()
    if n.nid in seen and not ex:
      continue
    if ex:
      order.append(n)
      continue
    seen.add(n.nid)
    stack.append((n, True))
    for a in n.args:
      if a.nid not in seen:
        stack.append((a, False))
  return order


def eval_nodes(roots, env):
  """env: nid -> concrete value for input/free nodes. returns dict nid -> value."""
  val = dict(env)
  with np.errstate(all="ignore"):
    for n in _topo(roots):
      if n.nid in val:
        continue
      op = n.op
      A = [val[a.nid] for a in n.args]
      if op == "fconst":
        r = ir.bits_f32(n.attr)
      elif op == "bconst":
        r = n.attr
      elif op in ("input", "free"):
        raise KeyError("unbound %r" % n)
      elif op in ("add", "sub", "mul", "div"):
        a, b = flush(A[0]), flush(A[1])
        r = flush({"add": a + b, "sub": a - b, "mul": a * b}[op] if op != "div" else np.divide(a, b, dtype=F))
      elif op == "sqrt":
        r = flush(np.sqrt(flush(A[0]), dtype=F))
      elif op == "rsqrt":
        r = flush(F(1.0) / np.sqrt(flush(A[0]), dtype=F))     # approximate: the kernel's own rounding is not modelled
      elif op == "neg":
        r = F(-A[0])
      elif op == "abs":
        r = F(abs(A[0]))
      elif op == "round":
        r = F(np.rint(flush(A[0])))
      elif op == "floor":
        r = F(np.floor(flush(A[0])))
      elif op == "ceil":
        r = F(np.ceil(flush(A[0])))
      elif op == "trunc":
        r = F(np.trunc(flush(A[0])))
      elif op == "max":
        r = F(np.nan) if (np.isnan(A[0]) or np.isnan(A[1])) else F(max(A[0], A[1]))
      elif op == "min":
        r = F(np.nan) if (np.isnan(A[0]) or np.isnan(A[1])) else F(min(A[0], A[1]))
      elif op == "sign":
        a = flush(A[0])
        r = a if np.isnan(a) else F(1.0) if a > 0 else F(-1.0) if a < 0 else F(0.0)
      elif op == "ite":
        r = A[1] if A[0] else A[2]
      elif op in ("lt", "leq", "gt", "geq", "eq", "ne"):
        a, b = flush(A[0]), flush(A[1])
        r = bool({"lt": a < b, "leq": a <= b, "gt": a > b, "geq": a >= b, "eq": a == b, "ne": a != b}[op])
      elif op == "and":
        r = all(A)
      elif op == "or":
        r = any(A)
      elif op == "not":
        r = not A[0]
      elif op == "lin":
        acc = np.float64(0)
        for i in range(0, len(A), 2):
          acc += np.float64(A[i]) * np.float64(A[i + 1])
        r = F(acc)     # order of the kernel is unknown: approximate value only
      else:
        raise NotImplementedError(op)
      val[n.nid] = r
  return val


def same(a, b):
  """bit-for-bit float equality; any-signed zeros equal; NaN equals NaN"""
  if isinstance(a, (bool, np.bool_)) or isinstance(b, (bool, np.bool_)):
    return bool(a) == bool(b)
  a, b = F(a), F(b)
  if np.isnan(a) and np.isnan(b):
    return True
  if a == 0 and b == 0:
    return True
  return ir.f32_bits(a) == ir.f32_bits(b)


# ---------------------------------------------------------------------------
def to_z3_real(roots, var_of=None, override=None, side=None):
  """Real relaxation.  Returns (dict nid -> z3 expr, dict name -> z3 var).
  side: optional list receiving the defining constraints of sqrt / rsqrt applications.
  override: {nid: z3 expr} - cut points whose sub-graphs are replaced by the given expressions."""
  import z3
  vars_ = {}
  override = override or {}

  def var(name, boolean=False):
    if name not in vars_:
      vars_[name] = z3.Bool(name) if boolean else z3.Real(name)
    return vars_[name]

  def rnd(a):
    fl = z3.ToReal(z3.ToInt(a))
    fr = a - fl
    return z3.If(fr < 0.5, fl, z3.If(fr > 0.5, fl + 1, z3.If(z3.ToInt(a) % 2 == 0, fl, fl + 1)))

  val = {}
  roots_done = set()

  def root(arg, aexpr):
    r0 = var("rsqrt_of_%d" % arg.nid)
    if arg.nid not in roots_done:
      roots_done.add(arg.nid)
      side.append(r0 > 0)
      side.append(z3.Implies(aexpr > 0, r0 * r0 * aexpr == 1))
    return r0
  for n in _topo(roots):
    op = n.op
    if n.nid in override:
      val[n.nid] = override[n.nid]
      continue
    A = [val[a.nid] for a in n.args]
    if op == "fconst":
      v = float(ir.bits_f32(n.attr))
      if v != v or v in (float("inf"), float("-inf")):
        r = z3.RealVal(0) if v != v else z3.RealVal(10 ** 30 if v > 0 else -10 ** 30)
      else:
        from fractions import Fraction
        fr = Fraction(v)
        r = z3.Q(fr.numerator, fr.denominator)
    elif op == "bconst":
      r = z3.BoolVal(n.attr)
    elif op in ("input", "free"):
      r = var(n.attr, n.sort == "B")
    elif op == "add": r = A[0] + A[1]
    elif op == "sub": r = A[0] - A[1]
    elif op == "mul": r = A[0] * A[1]
    elif op == "div":
      if side is not None and n.args[1].op == "sqrt":
        r = A[0] * root(n.args[1].args[0], val[n.args[1].args[0].nid])      # x / sqrt(a) = x * rsqrt(a): keeps the query polynomial
      else:
        r = A[0] / A[1]
    elif op in ("sqrt", "rsqrt"):
      if side is None:
        r = var("%s_%d" % (op, n.nid))
      else:
        # one positive unknown per radicand a: rsqrt(a) = r, sqrt(a) = 1/r, with r*r*a = 1 (for a > 0)
        r0 = root(n.args[0], A[0])
        r = r0 if op == "rsqrt" else 1 / r0
    elif op == "uf":
      f = z3.Function("uf_%s_%d" % n.attr, *([z3.RealSort()] * (len(A) + 1)))
      r = f(*A)
    elif op == "neg": r = -A[0]
    elif op == "abs": r = z3.If(A[0] >= 0, A[0], -A[0])
    elif op == "round": r = rnd(A[0])
    elif op == "floor": r = z3.ToReal(z3.ToInt(A[0]))
    elif op == "ceil": r = -z3.ToReal(z3.ToInt(-A[0]))
    elif op == "trunc": r = z3.If(A[0] >= 0, z3.ToReal(z3.ToInt(A[0])), -z3.ToReal(z3.ToInt(-A[0])))
    elif op == "max": r = z3.If(A[0] >= A[1], A[0], A[1])
    elif op == "min": r = z3.If(A[0] <= A[1], A[0], A[1])
    elif op == "sign": r = z3.If(A[0] > 0, z3.RealVal(1), z3.If(A[0] < 0, z3.RealVal(-1), z3.RealVal(0)))
    elif op == "ite": r = z3.If(A[0], A[1], A[2])
    elif op == "lt": r = A[0] < A[1]
    elif op == "leq": r = A[0] <= A[1]
    elif op == "gt": r = A[0] > A[1]
    elif op == "geq": r = A[0] >= A[1]
    elif op == "eq": r = A[0] == A[1]
    elif op == "ne": r = A[0] != A[1]
    elif op == "and": r = z3.And(*A)
    elif op == "or": r = z3.Or(*A)
    elif op == "not": r = z3.Not(A[0])
    elif op == "lin":
      r = z3.Sum([A[i] * A[i + 1] for i in range(0, len(A), 2)]) if A else z3.RealVal(0)
    else:
      raise NotImplementedError(op)
    val[n.nid] = r
  return val, vars_
