"""Shared run-time plumbing: tiers, obligations bookkeeping, replay, known findings, evidence."""
import json
import os
import sys
import time
import hashlib
import traceback

from . import solve

ROOT = os.path.dirname(os.path.dirname(os.path.abspath(__file__)))
EVID = os.path.join(ROOT, "evidence")
REPLAYS = os.path.join(ROOT, "replays")
KNOWN = os.path.join(ROOT, "known_findings.json")

EXIT_OK, EXIT_VIOLATION, EXIT_INCONCLUSIVE = 0, 1, 2


def log(*a):
  print(*a, flush=True)


def jsonable(x):
  import numpy as np
  if isinstance(x, dict):
    return {str(k): jsonable(v) for k, v in x.items()}
  if isinstance(x, (list, tuple, set)):
    return [jsonable(v) for v in x]
  if isinstance(x, (np.floating,)):
    return float(x)
  if isinstance(x, (np.integer,)):
    return int(x)
  if isinstance(x, np.bool_):
    return bool(x)
  if isinstance(x, np.ndarray):
    return jsonable(x.tolist())
  if isinstance(x, float) and (x != x or x in (float("inf"), float("-inf"))):
    return repr(x)
  if isinstance(x, (str, int, float, bool)) or x is None:
    return x
  return repr(x)


class Run(object):
  """One execution of one property check."""

  def __init__(self, prop, level, tier, seed, design_ref=""):
    self.prop, self.level, self.tier, self.seed = prop, level, tier, seed
    self.t0 = time.time()
    self.obls = []            # solve.Obligation
    self.violations = []      # dicts (confirmed, unlisted)
    self.known_hits = {}      # finding id -> text
    self.inconclusive = []    # strings
    self.aux = {}             # free-form extra coverage info
    self.samples = []
    self.assumptions = []
    self.functions = []       # encoded functions
    self.bounds = []
    self.validated_points = 0
    self.validated_graphs = 0
    self.concrete_checks = 0
    self.configs = []
    self.trusted = []
    with open(KNOWN) as f:
      self.known = [k for k in json.load(f)["findings"] if k.get("property") == prop and k.get("status", "open") == "open"]

  # ------------------------------------------------------------------
  def quick(self):
    return self.tier == "quick"

  def add(self, oid, smt, meta=None, expect="unsat", solver="cvc5", timeout=None, twin=False, kind="obligation"):
    if timeout is None:
      timeout = int(os.environ.get("VERIF_TIMEOUT", "0")) or (900 if self.quick() else 2400)
    o = solve.Obligation("%s_%s" % (self.prop, oid), smt, expect=expect, meta=meta or {}, solver=solver,
                         timeout=timeout, twin=twin, kind=kind)
    self.obls.append(o)
    return o

  def add_twin(self, oid, smt, meta=None, solver="cvc5"):
    """reachability witness: same assumptions, property dropped; must be sat"""
    return self.add(oid + "_twin", smt, meta=meta, expect="sat", solver=solver, twin=True, timeout=300)

  def discharge(self, only=None):
    todo = [o for o in self.obls if o.result is None and (only is None or o in only)]
    if not todo:
      return
    log("[%s] discharging %d solver queries on %d workers" % (self.prop, len(todo), solve.NPROC))
    done = [0]

    def prog(o):
      done[0] += 1
      r = o.result
      if r.verdict != o.expect or done[0] % 20 == 0 or done[0] == len(todo):
        log("[%s]  %d/%d %s -> %s (%.1fs %s)%s" % (self.prop, done[0], len(todo), o.oid, r.verdict, r.secs, r.solver,
                                                   "" if r.verdict == o.expect else "   <-- expected " + o.expect))
    solve.discharge(todo, progress=prog)

  # ------------------------------------------------------------------
  def signature_matches(self, sig):
    for k in self.known:
      m = k.get("match", {})
      if all(sig.get(key) == v for key, v in m.items()):
        return k
    return None

  def violation(self, sig, detail, replay):
    """A replay-confirmed violation.  sig: dict identifying call site / configuration / region."""
    k = self.signature_matches(sig)
    if k is not None:
      self.known_hits.setdefault(k["id"], k["what"])
      return False
    os.makedirs(REPLAYS, exist_ok=True)
    body = dict(property=self.prop, signature=sig, detail=detail, replay=replay)
    h = hashlib.sha1(json.dumps(jsonable(body), sort_keys=True).encode()).hexdigest()[:10]
    path = os.path.join(REPLAYS, "%s_%s.json" % (self.prop, h))
    with open(path, "w") as f:
      json.dump(jsonable(body), f, indent=1, sort_keys=True)
    self.violations.append(dict(sig=sig, detail=detail, path=path))
    log("[%s] violation: %s" % (self.prop, json.dumps(jsonable(dict(sig=sig, detail=detail)))[:600]))
    return True

  def inconclusive_(self, why):
    self.inconclusive.append(why)
    log("[%s] INCONCLUSIVE: %s" % (self.prop, why[:600]))

  # ------------------------------------------------------------------
  def finish(self, explanation=""):
    obls = [o for o in self.obls if not o.twin]
    twins = [o for o in self.obls if o.twin]
    for o in self.obls:
      if o.result is None:
        self.inconclusive_("query %s not run" % o.oid)
    n_dis = sum(1 for o in obls if o.result is not None and o.result.verdict == "unsat" and o.expect == "unsat")
    n_sat_expected = sum(1 for o in obls if o.result is not None and o.expect == "sat" and o.result.verdict == "sat")
    solver_time = sum(o.result.secs for o in self.obls if o.result is not None)
    by_solver = {}
    for o in self.obls:
      if o.result is not None:
        by_solver[o.result.solver] = by_solver.get(o.result.solver, 0) + 1
    queries = []
    for o in self.obls:
      r = o.result
      queries.append(dict(id=o.oid, kind=o.kind, twin=o.twin, expect=o.expect, verdict=r.verdict if r else None,
                          secs=round(r.secs, 2) if r else None, solver=r.solver if r else None, meta=o.meta))
    if not self.samples and obls:
      o = obls[0]
      self.samples.append(dict(obligation=o.oid, meta=o.meta, smt_head=o.smt[:1500]))
    nontrivial = len(set(o.oid for o in obls if o.result is not None and o.result.verdict in ("sat", "unsat")))
    cov = dict(
        evaluations=len(self.obls) + self.concrete_checks,
        distinct_nontrivial=max(nontrivial, 0) + (len(set(map(str, self.aux.get("enumerated_cases", [])))) if self.aux.get("enumerated_cases") else 0),
        rule=("one solver obligation per (configuration, clause); distinct = distinct obligation ids decided sat/unsat by the "
              "solver (reachability twins and translator-validation points are not counted as distinct cases)"),
        obligations=len(obls), discharged=n_dis + n_sat_expected,
        twins=len(twins), twins_sat=sum(1 for o in twins if o.result is not None and o.result.verdict == "sat"),
        solver_time_s=round(solver_time, 1), queries_by_solver=by_solver,
        translator_validation_points=self.validated_points, graphs_validated=self.validated_graphs,
        concrete_checks=self.concrete_checks,
        configurations=len(self.configs),
        functions_encoded=self.functions, bounds=self.bounds,
        checker_cmd="./check %s --tier %s" % (self.prop, self.tier),
        trusted_base=self.trusted or ["cvc5 1.4.0 (wheel)", "z3 4.x", "TensorFlow tracer + kernels used for constant folding",
                                      "vf.ir / vf.tfg translation (validated against the real kernels on this run)"],
        samples=self.samples[:12],
        explanation=explanation,
        known_findings_reproduced=sorted(self.known_hits),
        inconclusive=self.inconclusive[:50],
        queries=queries if len(queries) <= 400 else queries[:400],
    )
    for k, v in self.aux.items():
      if k != "enumerated_cases":
        cov[k] = v
    ev = dict(property_id=self.prop, tier=self.tier, seed=int(self.seed), level=self.level, coverage=jsonable(cov),
              assumptions=self.assumptions, wall_s=round(time.time() - self.t0, 1), violations=len(self.violations))
    os.makedirs(EVID, exist_ok=True)
    with open(os.path.join(EVID, "%s.json" % self.prop), "w") as f:
      json.dump(ev, f, indent=1, sort_keys=True)
    for fid, what in sorted(self.known_hits.items()):
      print("KNOWN-FINDING: property=%s %s [%s]" % (self.prop, what, fid), flush=True)
    for v in self.violations:
      print("VIOLATION property=%s replay=%s" % (self.prop, v["path"]), flush=True)
    log("[%s] tier=%s obligations=%d discharged=%d twins=%d/%d violations=%d known=%d inconclusive=%d solver=%.0fs wall=%.0fs" % (
        self.prop, self.tier, len(obls), n_dis + n_sat_expected, cov["twins_sat"], len(twins), len(self.violations),
        len(self.known_hits), len(self.inconclusive), solver_time, time.time() - self.t0))
    if self.violations:
      return EXIT_VIOLATION
    if self.inconclusive:
      return EXIT_INCONCLUSIVE
    return EXIT_OK


def main(argv=None):
  import argparse
  import importlib
  ap = argparse.ArgumentParser()
  ap.add_argument("prop")
  ap.add_argument("--tier", default=os.environ.get("VERIF_TIER", "quick"), choices=["quick", "thorough"])
  ap.add_argument("--replay", default=None)
  ap.add_argument("--seed", type=int, default=int(os.environ.get("VERIF_SEED", "0") or 0))
  a = ap.parse_args(argv)
  mod = importlib.import_module("vf.props.%s" % a.prop.lower())
  if a.replay:
    with open(a.replay) as f:
      body = json.load(f)
    ok = mod.replay(body)
    # replay exits 1 when the violation reproduces
    sys.exit(EXIT_VIOLATION if ok else EXIT_OK)
  try:
    code = mod.run(a.tier, a.seed)
  except SystemExit:
    raise
  except BaseException:  # pylint: disable=broad-except
    traceback.print_exc()
    log("[%s] harness error" % a.prop)
    code = EXIT_INCONCLUSIVE
  finally:
    import shutil
    if not os.environ.get("VERIF_KEEP"):
      shutil.rmtree(solve.WORK, ignore_errors=True)
  sys.exit(code)


if __name__ == "__main__":
  main()


def z3_query(run, oid, assumptions, negated, meta, timeout_ms=None):
  """Engine-B obligation through the z3 Python API: checks the reachability twin (assumptions alone must be sat)
  and the negated property.  Returns (verdict string, model dict or None)."""
  import z3
  s = z3.Solver()
  s.set("timeout", timeout_ms or (120000 if run.quick() else 600000))
  s.add(*assumptions)
  t0 = time.time()
  tw = str(s.check())
  s.add(*negated)
  v = s.check()
  dt = time.time() - t0
  ob = solve.Obligation("%s_%s" % (run.prop, oid), "(z3 python API) " + oid, meta=dict(meta, secs=round(dt, 2)), solver="z3")
  ob.result = solve.Result(str(v), {}, dt, "z3")
  run.obls.append(ob)
  tob = solve.Obligation("%s_%s_twin" % (run.prop, oid), "", expect="sat", meta=meta, solver="z3", twin=True)
  tob.result = solve.Result(tw, {}, 0.0, "z3")
  run.obls.append(tob)
  if tw != "sat":
    run.inconclusive_("reachability twin of %s is %s" % (oid, tw))
  model = None
  if v == z3.sat:
    model = {}
    m = s.model()
    for d in m.decls():
      val = m[d]
      if z3.is_int_value(val):
        model[d.name()] = val.as_long()
      elif z3.is_rational_value(val):
        model[d.name()] = [val.numerator_as_long(), val.denominator_as_long()]
      elif z3.is_true(val) or z3.is_false(val):
        model[d.name()] = z3.is_true(val)
  elif v != z3.unsat:
    run.inconclusive_("%s: solver answered %s" % (oid, v))
  return str(v), model
