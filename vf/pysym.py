"""Engine B: symbolic execution of pure-Python numeric code on z3-backed proxy values.

The real functions of /repo are executed as they are; proxies (SymInt / SymReal / SymBool) stand in
for numbers, `bool()` on a SymBool forks the execution (both feasible branches are explored by
re-running with a decision prefix), and the few builtins that would force a concrete value
(int, max, min, abs, float, round, math.ceil/floor, np.log2 ...) are shadowed in the *module globals*
of the module under analysis, so the source is untouched.
"""
import contextlib
import math
import z3


class Infeasible(Exception):
  pass


class PathLimit(Exception):
  pass


class Ctx(object):
  def __init__(self, decisions, base):
    self.decisions = list(decisions)
    self.pos = 0
    self.pc = list(base)
    self.both = [False] * len(decisions)
    self.solver = z3.Solver()
    self.solver.set("timeout", 20000)
    self.solver.add(*base)
    self.facts = []      # extra constraints introduced by stubs (part of the path condition)

  def feasible(self, e):
    self.solver.push()
    self.solver.add(e)
    r = self.solver.check()
    self.solver.pop()
    return r != z3.unsat


CTX = None


def _ctx():
  if CTX is None:
    raise RuntimeError("symbolic value used outside pysym.explore")
  return CTX


def fact(e):
  c = _ctx()
  c.facts.append(e)
  c.pc.append(e)
  c.solver.add(e)


class SymBool(object):
  def __init__(self, e):
    self.e = e

  def __bool__(self):
    c = _ctx()
    e = z3.simplify(self.e)
    if z3.is_true(e):
      return True
    if z3.is_false(e):
      return False
    if c.pos < len(c.decisions):
      d = c.decisions[c.pos]
    else:
      t = c.feasible(self.e)
      f = c.feasible(z3.Not(self.e))
      if not t and not f:
        raise Infeasible()
      d = True if t else False
      c.decisions.append(d)
      c.both.append(t and f)
    c.pos += 1
    cond = self.e if d else z3.Not(self.e)
    c.pc.append(cond)
    c.solver.add(cond)
    return d

  def __and__(self, o): return SymBool(z3.And(self.e, tob(o)))
  __rand__ = __and__
  def __or__(self, o): return SymBool(z3.Or(self.e, tob(o)))
  __ror__ = __or__
  def __invert__(self): return SymBool(z3.Not(self.e))
  def __eq__(self, o): return SymBool(self.e == tob(o))
  def __ne__(self, o): return SymBool(self.e != tob(o))
  def __hash__(self): return id(self)
  def __int__(self): return SymInt(z3.If(self.e, 1, 0))
  def __index__(self): raise TypeError("symbolic bool used as index")
  def __add__(self, o): return SymInt(z3.If(self.e, 1, 0)) + o
  __radd__ = __add__
  def __rsub__(self, o): return o - SymInt(z3.If(self.e, 1, 0))
  def __sub__(self, o): return SymInt(z3.If(self.e, 1, 0)) - o
  def __mul__(self, o): return SymInt(z3.If(self.e, 1, 0)) * o
  __rmul__ = __mul__
  def __deepcopy__(self, memo): return self


def tob(o):
  if isinstance(o, SymBool):
    return o.e
  if isinstance(o, (SymInt, SymReal)):
    return o.e != 0
  return z3.BoolVal(bool(o))


def lift(o):
  """python / proxy value -> z3 arithmetic expression"""
  if isinstance(o, (SymInt, SymReal)):
    return o.e
  if isinstance(o, SymBool):
    return z3.If(o.e, 1, 0)
  if isinstance(o, bool):
    return z3.IntVal(int(o))
  if isinstance(o, int):
    return z3.IntVal(o)
  if isinstance(o, float):
    if o == int(o) and abs(o) < 2 ** 62:
      return z3.RealVal(int(o))
    from fractions import Fraction
    f = Fraction(o)
    return z3.Q(f.numerator, f.denominator)
  try:
    import numpy as np
    if isinstance(o, np.generic):
      return lift(o.item())
    if isinstance(o, np.ndarray) and o.size == 1:
      return lift(o.reshape(-1)[0])
  except ImportError:
    pass
  raise TypeError("cannot lift %r" % (o,))


def _is_real(e):
  return z3.is_real(e)


def wrap(e):
  if z3.is_bool(e):
    return SymBool(e)
  return SymReal(e) if _is_real(e) else SymInt(e)


class _Num(object):
  def __init__(self, e):
    self.e = e

  def _bin(self, o, f):
    a, b = self.e, lift(o)
    if _is_real(a) != _is_real(b):
      a = z3.ToReal(a) if not _is_real(a) else a
      b = z3.ToReal(b) if not _is_real(b) else b
    return a, b

  def __add__(self, o):
    a, b = self._bin(o, None); return wrap(a + b)
  __radd__ = __add__
  def __sub__(self, o):
    a, b = self._bin(o, None); return wrap(a - b)
  def __rsub__(self, o):
    a, b = self._bin(o, None); return wrap(b - a)
  def __mul__(self, o):
    a, b = self._bin(o, None); return wrap(a * b)
  __rmul__ = __mul__
  def __truediv__(self, o):
    a, b = self._bin(o, None)
    return SymReal((z3.ToReal(a) if not _is_real(a) else a) / (z3.ToReal(b) if not _is_real(b) else b))
  def __rtruediv__(self, o):
    a, b = self._bin(o, None)
    return SymReal((z3.ToReal(b) if not _is_real(b) else b) / (z3.ToReal(a) if not _is_real(a) else a))
  def __floordiv__(self, o):
    a, b = self._bin(o, None)
    if _is_real(a):
      return SymReal(z3.ToReal(z3.ToInt(a / b)))
    return SymInt(a / b)     # z3 Int division is floor for positive divisors
  def __mod__(self, o):
    a, b = self._bin(o, None); return SymInt(a % b)
  def __neg__(self): return wrap(-self.e)
  def __pos__(self): return self
  def __abs__(self): return wrap(z3.If(self.e >= 0, self.e, -self.e))
  def __lt__(self, o):
    a, b = self._bin(o, None); return SymBool(a < b)
  def __le__(self, o):
    a, b = self._bin(o, None); return SymBool(a <= b)
  def __gt__(self, o):
    a, b = self._bin(o, None); return SymBool(a > b)
  def __ge__(self, o):
    a, b = self._bin(o, None); return SymBool(a >= b)
  def __eq__(self, o):
    if o is None or isinstance(o, str):
      return False
    a, b = self._bin(o, None); return SymBool(a == b)
  def __ne__(self, o):
    if o is None or isinstance(o, str):
      return True
    a, b = self._bin(o, None); return SymBool(a != b)
  def __bool__(self): return bool(SymBool(self.e != 0))
  def __hash__(self): return id(self)
  def __deepcopy__(self, memo): return self
  def __or__(self, o): return SymInt(z3.If(z3.Or(self.e != 0, tob(o)), 1, 0))     # 0/1 flags only
  __ror__ = __or__
  def __and__(self, o): return SymInt(z3.If(z3.And(self.e != 0, tob(o)), 1, 0))
  __rand__ = __and__
  def __repr__(self): return "Sym(%s)" % z3.simplify(self.e)
  def __format__(self, spec): return repr(self)

  # --- numpy ufunc protocol on object scalars: np.log2(x) calls x.log2() -----------------
  def log2(self):
    return stub_log2(self)
  def sqrt(self):
    r = SymReal(z3.FreshReal("sqrt"))
    a = z3.ToReal(self.e) if not _is_real(self.e) else self.e
    fact(z3.And(r.e >= 0, r.e * r.e == a))
    return r
  def log10(self):
    return monotone_stub("log10", self)
  def log(self):
    return monotone_stub("log", self)
  def ceil(self):
    return sym_ceil(self)
  def floor(self):
    return sym_floor(self)
  def rint(self):
    return sym_round(self)
  # math.ceil / math.floor / round protocol (numpy's object loops for ceil/floor go through math.*)
  def __ceil__(self): return sym_ceil(self)
  def __floor__(self): return sym_floor(self)
  def __trunc__(self): return sym_trunc(self) if isinstance(self, SymReal) else self
  def __round__(self, n=None): return sym_round(self)


class SymInt(_Num):
  def __index__(self): raise TypeError("symbolic int used as index")
  def __pow__(self, o): raise TypeError("symbolic ** : use pysym.pow2")
  def __rpow__(self, base):
    if base in (2, 2.0):
      return pow2(self)
    raise TypeError("only 2**sym supported")


class SymReal(_Num):
  def __rpow__(self, base):
    raise TypeError("2**real")


# --- exponentials as finite tables -----------------------------------------------------------
POW2_RANGE = (-96, 160)


def pow2_expr(e, lo=None, hi=None):
  lo = POW2_RANGE[0] if lo is None else lo
  hi = POW2_RANGE[1] if hi is None else hi
  r = z3.RealVal(0) if lo < 0 else z3.IntVal(0)
  real = lo < 0
  acc = None
  for k in range(hi, lo - 1, -1):
    v = (z3.Q(1, 2 ** (-k)) if k < 0 else z3.RealVal(2 ** k)) if real else z3.IntVal(2 ** k)
    acc = v if acc is None else z3.If(e == k, v, acc)
  return acc


def pow2(x, lo=None, hi=None):
  """2**x for a symbolic integer x (finite ite-table over the stated range; the range is asserted)"""
  e = lift(x)
  lo = POW2_RANGE[0] if lo is None else lo
  hi = POW2_RANGE[1] if hi is None else hi
  if CTX is not None:
    if not CTX.feasible(z3.And(e >= lo, e <= hi)):
      raise Infeasible()
    c = CTX
    if c.feasible(z3.Or(e < lo, e > hi)):
      raise PathLimit("2**e with e outside [%d,%d] is feasible: %s" % (lo, hi, z3.simplify(e)))
  return wrap(pow2_expr(e, lo, hi))


# --- contract stubs ---------------------------------------------------------------------------
_mono = {}


def monotone_stub(kind, x):
  """strictly increasing unknown function with f(1)=0 (log, log10)"""
  r = z3.FreshReal(kind)
  a = lift(x)
  a = z3.ToReal(a) if not _is_real(a) else a
  fact(z3.And(z3.Implies(a > 1, r > 0), z3.Implies(a == 1, r == 0), z3.Implies(z3.And(a > 0, a < 1), r < 0)))
  for (b, rb) in _mono.setdefault((id(CTX), kind), []):
    fact(z3.And(z3.Implies(a < b, r < rb), z3.Implies(a == b, r == rb), z3.Implies(a > b, r > rb)))
  _mono[(id(CTX), kind)].append((a, r))
  return SymReal(r)


class Log2Val(SymReal):
  """log2 of a positive quantity n: carries the integers floor/ceil so that ceil()/floor() are exact contracts"""

  def __init__(self, n):
    r = z3.FreshReal("log2")
    SymReal.__init__(self, r)
    self.n = n
    self.c = z3.FreshInt("clog2")
    self.f = z3.FreshInt("flog2")
    nr = z3.ToReal(n) if not _is_real(n) else n
    lo, hi = POW2_RANGE
    fact(z3.And(self.c >= lo, self.c <= hi, self.f >= lo, self.f <= hi,
                nr <= pow2_expr(self.c), z3.Or(self.c == lo, nr > pow2_expr(self.c - 1)),
                nr >= pow2_expr(self.f), nr < pow2_expr(self.f + 1),
                r <= z3.ToReal(self.c), r >= z3.ToReal(self.f), z3.Implies(self.c == self.f, r == z3.ToReal(self.c)),
                z3.Implies(self.c != self.f, z3.And(r > z3.ToReal(self.f), r < z3.ToReal(self.c)))))

  def ceil(self): return SymInt(self.c)
  def floor(self): return SymInt(self.f)


ASSUME_LOG_POSITIVE = [False]


def stub_log2(x):
  n = lift(x)
  c = _ctx()
  if not c.feasible(n > 0):
    raise Infeasible()
  if c.feasible(n <= 0):
    if ASSUME_LOG_POSITIVE[0]:
      fact(n > 0)         # degenerate (log of a non-positive quantity) executions are outside the claim of the caller
    else:
      raise PathLimit("log2 of a possibly non-positive value %s" % z3.simplify(n))
  # log2 is a function: a structurally identical argument (on this path) gets the very same value
  memo = getattr(c, "log2_memo", None)
  if memo is None:
    memo = c.log2_memo = []
  for (m_, v_) in memo:
    if m_.eq(n):
      return v_
  c.log2_args = getattr(c, "log2_args", []) + [n]
  v = Log2Val(n)
  memo.append((n, v))
  return v


def sym_ceil(x):
  if isinstance(x, Log2Val):
    return x.ceil()
  if isinstance(x, SymInt):
    return x
  if isinstance(x, SymReal):
    return SymInt(-z3.ToInt(-x.e))
  return math.ceil(x)


def sym_floor(x):
  if isinstance(x, Log2Val):
    return x.floor()
  if isinstance(x, SymInt):
    return x
  if isinstance(x, SymReal):
    return SymInt(z3.ToInt(x.e))
  return math.floor(x)


def sym_round(x):
  if isinstance(x, SymInt):
    return x
  if isinstance(x, SymReal):
    fl = z3.ToInt(x.e)
    fr = x.e - z3.ToReal(fl)
    return SymInt(z3.If(fr < 0.5, fl, z3.If(fr > 0.5, fl + 1, z3.If(fl % 2 == 0, fl, fl + 1))))
  return round(x)


def sym_int(x, *a):
  if isinstance(x, SymInt):
    return x
  if isinstance(x, SymBool):
    return SymInt(z3.If(x.e, 1, 0))
  if isinstance(x, Log2Val):
    return sym_trunc(x)
  if isinstance(x, SymReal):
    return sym_trunc(x)
  return int(x, *a)


def sym_trunc(x):
  e = x.e
  return SymInt(z3.If(e >= 0, z3.ToInt(e), -z3.ToInt(-e)))


def sym_float(x):
  if isinstance(x, (SymInt, SymBool)):
    return SymReal(z3.ToReal(lift(x)))
  if isinstance(x, SymReal):
    return x
  return float(x)


def _is_sym(v):
  if isinstance(v, (SymInt, SymReal, SymBool)):
    return True
  try:
    import numpy as np
    return isinstance(v, np.ndarray) and v.dtype == object and v.size == 1 and isinstance(v.reshape(-1)[0], (SymInt, SymReal, SymBool))
  except ImportError:
    return False


def sym_max(*a, **kw):
  if len(a) == 1 and not _is_sym(a[0]):
    a = tuple(a[0])
  if not any(_is_sym(v) for v in a):
    return max(*a, **kw) if len(a) > 1 else a[0]
  r = a[0]
  for b in a[1:]:
    x, y = lift(r), lift(b)
    if _is_real(x) != _is_real(y):
      x = z3.ToReal(x) if not _is_real(x) else x
      y = z3.ToReal(y) if not _is_real(y) else y
    r = wrap(z3.If(x >= y, x, y))
  return r


def sym_min(*a, **kw):
  if len(a) == 1 and not _is_sym(a[0]):
    a = tuple(a[0])
  if not any(_is_sym(v) for v in a):
    return min(*a, **kw) if len(a) > 1 else a[0]
  r = a[0]
  for b in a[1:]:
    x, y = lift(r), lift(b)
    if _is_real(x) != _is_real(y):
      x = z3.ToReal(x) if not _is_real(x) else x
      y = z3.ToReal(y) if not _is_real(y) else y
    r = wrap(z3.If(x <= y, x, y))
  return r


def sym_abs(x):
  return abs(x)


def sym_isinstance_int(x):
  return isinstance(x, (int, SymInt))


class MathShim(object):
  """drop-in for the `math` module inside analysed modules"""

  def __getattr__(self, k):
    return getattr(math, k)

  @staticmethod
  def ceil(x): return sym_ceil(x) if _is_sym(x) else math.ceil(x)
  @staticmethod
  def floor(x): return sym_floor(x) if _is_sym(x) else math.floor(x)
  @staticmethod
  def log2(x): return stub_log2(x) if _is_sym(x) else math.log2(x)


SHADOW = {"int": sym_int, "max": sym_max, "min": sym_min, "abs": sym_abs, "float": sym_float, "round": sym_round, "math": MathShim()}


@contextlib.contextmanager
def shadow(*modules, **extra):
  """install the shims in the module globals of `modules` (removed afterwards)"""
  saved = []
  names = dict(SHADOW)
  names.update(extra)
  for m in modules:
    for k, v in names.items():
      if k == "math" and not hasattr(m, "math"):
        continue
      saved.append((m, k, m.__dict__.get(k, _MISSING)))
      m.__dict__[k] = v
  try:
    yield
  finally:
    for m, k, old in reversed(saved):
      if old is _MISSING:
        m.__dict__.pop(k, None)
      else:
        m.__dict__[k] = old


_MISSING = object()


def explore(fn, base=(), max_paths=256):
  """Run fn() on every feasible path.  returns list of (path_condition list, result, facts)."""
  global CTX
  todo = [[]]
  paths = []
  limits = []
  while todo:
    dec = todo.pop()
    if len(paths) + len(limits) > max_paths:
      raise PathLimit("more than %d paths" % max_paths)
    CTX = Ctx(dec, base)
    try:
      res = fn()
      paths.append((list(CTX.pc), res, list(CTX.facts) + [("log2_args", getattr(CTX, "log2_args", []))]))
    except Infeasible:
      pass
    except PathLimit as e:
      limits.append((list(CTX.pc), str(e)))
    finally:
      c = CTX
    for i in range(len(dec), len(c.decisions)):
      if c.both[i]:
        todo.append(c.decisions[:i] + [not c.decisions[i]])
    CTX = None
  return paths, limits


# ---- symbolic strings (z3 sequence theory), used for safe_eval.GetArg ------------------------------------------------------
def _re_chars(chars):
  return z3.Union(*[z3.Re(c) for c in chars]) if len(chars) > 1 else z3.Re(chars)


DIGIT = z3.Range("0", "9")
# what the builtins accept, restricted to strings without whitespace / underscores-at-ends (validated against int()/float())
PY_INT_RE = z3.Concat(z3.Option(z3.Union(z3.Re("-"), z3.Re("+"))), z3.Plus(DIGIT), z3.Star(z3.Concat(z3.Re("_"), z3.Plus(DIGIT))))
_DIGITS_US = z3.Concat(z3.Plus(DIGIT), z3.Star(z3.Concat(z3.Re("_"), z3.Plus(DIGIT))))
_EXP = z3.Concat(z3.Union(z3.Re("e"), z3.Re("E")), z3.Option(z3.Union(z3.Re("-"), z3.Re("+"))), _DIGITS_US)
_MANT = z3.Union(z3.Concat(_DIGITS_US, z3.Option(z3.Concat(z3.Re("."), z3.Option(_DIGITS_US)))), z3.Concat(z3.Re("."), _DIGITS_US))


def _ci(word):
  return z3.Concat(*[z3.Union(z3.Re(ch.lower()), z3.Re(ch.upper())) for ch in word])


PY_FLOAT_RE = z3.Concat(z3.Option(z3.Union(z3.Re("-"), z3.Re("+"))),
                        z3.Union(z3.Concat(_MANT, z3.Option(_EXP)), _ci("inf"), _ci("infinity"), _ci("nan")))


class SymFloatOf(object):
  """the value float(s) of a symbolic string (opaque: the code under test obtains it from the builtin)"""

  def __init__(self, s):
    self.s = s


class SymStr(object):
  def __init__(self, e):
    self.e = e

  def _o(self, o):
    return o.e if isinstance(o, SymStr) else z3.StringVal(o)

  def __eq__(self, o):
    if not isinstance(o, (str, SymStr)):
      return False
    return SymBool(self.e == self._o(o))

  def __ne__(self, o):
    if not isinstance(o, (str, SymStr)):
      return True
    return SymBool(self.e != self._o(o))

  def __hash__(self):
    return id(self)

  def __contains__(self, o):
    return bool(SymBool(z3.Contains(self.e, self._o(o))))

  def __len__(self):
    raise TypeError("len() of a symbolic string")

  def __getitem__(self, k):
    n = z3.Length(self.e)
    if isinstance(k, slice):
      if k.step not in (None, 1):
        raise TypeError("slice step")
      a = 0 if k.start is None else k.start
      b_ = n if k.stop is None else (n + k.stop if k.stop < 0 else z3.IntVal(k.stop))
      a = n + a if a < 0 else z3.IntVal(a)
      return SymStr(z3.SubString(self.e, a, z3.If(b_ - a > 0, b_ - a, 0)))
    idx = n + k if k < 0 else z3.IntVal(k)
    c = _ctx()
    if c.feasible(z3.Or(idx < 0, idx >= n)):
      if not c.feasible(z3.And(idx >= 0, idx < n)):
        raise IndexError("string index out of range")
      if bool(SymBool(z3.Or(idx < 0, idx >= n))):
        raise IndexError("string index out of range")
    return SymStr(z3.SubString(self.e, idx, 1))

  def replace(self, old, new):
    c = _ctx()
    if c.feasible(z3.Contains(self.e, z3.StringVal(old))):
      raise PathLimit("str.replace on a string that may contain %r" % old)
    return self

  def split(self, sep=None):
    c = _ctx()
    if sep is None or c.feasible(z3.Contains(self.e, z3.StringVal(sep))):
      raise PathLimit("str.split on a string that may contain the separator")
    return [self]

  def __repr__(self):
    return "SymStr(%s)" % self.e


def str_int(x, *a):
  """int() on a symbolic string: succeeds exactly on PY_INT_RE (contract, validated against the builtin)"""
  if isinstance(x, SymStr):
    if bool(SymBool(z3.InRe(x.e, PY_INT_RE))):
      body = z3.If(z3.Or(z3.PrefixOf("-", x.e), z3.PrefixOf("+", x.e)), z3.SubString(x.e, 1, z3.Length(x.e) - 1), x.e)
      val = z3.StrToInt(body)
      return SymInt(z3.If(z3.PrefixOf("-", x.e), -val, val))
    raise ValueError("invalid literal for int()")
  return sym_int(x, *a)


def str_float(x):
  if isinstance(x, SymStr):
    if bool(SymBool(z3.InRe(x.e, PY_FLOAT_RE))):
      return SymFloatOf(x)
    raise ValueError("could not convert string to float")
  return sym_float(x)
