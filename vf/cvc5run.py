"""Run an SMT-LIB 2 file through the cvc5 1.4 wheel (the 1.0.3 binary on PATH can time out
on queries the wheel decides).  Prints check-sat / get-value answers like the binary."""
import sys
import cvc5


def main(path):
  slv = cvc5.Solver()
  sm = cvc5.SymbolManager(slv.getTermManager()) if hasattr(slv, "getTermManager") else cvc5.SymbolManager(slv)
  p = cvc5.InputParser(slv, sm)
  p.setFileInput(cvc5.InputLanguage.SMT_LIB_2_6, path)
  while True:
    cmd = p.nextCommand()
    if cmd.isNull():
      break
    out = cmd.invoke(slv, sm)
    if out:
      sys.stdout.write(out)
      sys.stdout.flush()


if __name__ == "__main__":
  main(sys.argv[1])
