"""Heavy linear operators (MatMul, Conv2D, DepthwiseConv2dNative, AvgPool ...) over arrays of terms.

The index structure of an operator application - which (input element, weight element) pairs feed which
output element - is *extracted from the real TensorFlow kernel* by probing it with basis tensors (one-hot
inputs in the batch dimension, index-coded weights).  Nothing about strides / padding / dilation / groups
/ data formats is re-implemented here.  The resulting output element is an order-insensitive `lin` term
(a sum of products), which is opaque in the exact floating-point encoding (the kernel's accumulation
order is unknown) and a genuine sum of products in the real relaxation.
"""
import numpy as np
import tensorflow as tf
from . import tfg

_cache = {}


def _key(op, shapes):
  return (op.type, tfg._attr_tuple(op).__repr__(), tuple(map(tuple, shapes)))


def bilinear_structure(op, a_shape, w_shape):
  """returns R with shape (E,)+out_sample_shape: R[b,o] = 1 + flat index of the weight element multiplying input
  element b in output element o (0 = no contribution).  First axis of the data operand is the batch axis."""
  k = _key(op, (a_shape, w_shape))
  if k in _cache:
    return _cache[k]
  sample = tuple(a_shape[1:])
  E = int(np.prod(sample))
  if E > 4096 or int(np.prod(w_shape)) > 4096:
    raise tfg.Unsupported("linear operator too large for structure extraction: %s x %s" % (a_shape, w_shape))
  basis = np.zeros((E, E), dtype=np.float32)
  basis[np.arange(E), np.arange(E)] = 1.0
  basis = basis.reshape((E,) + sample)
  nW = int(np.prod(w_shape))
  codes = []
  for code in (np.arange(1, nW + 1, dtype=np.float32), (np.arange(1, nW + 1, dtype=np.float32) * 7.0 + 3.0)):
    res = tfg.run_kernel(op, [basis, code.reshape(w_shape)] + [None] * 0)[0]
    codes.append(res)
  r1, r2 = codes
  # at most one weight element per (input element, output element): both codings must agree on it
  idx = np.rint(r1).astype(np.int64)
  ok = (np.abs(r1 - idx) < 1e-3) & (idx >= 0) & (idx <= nW)
  ok &= np.abs(r2 - np.where(idx > 0, idx * 7.0 + 3.0, 0.0)) < 1e-2
  if not ok.all():
    raise tfg.Unsupported("operator %s is not a 0/1 bilinear form in the probed geometry" % op.type)
  # the extracted structure reproduces the kernel on random tensors (bilinearity / batch independence are assumptions
  # about the operator that this check would expose)
  rs = np.random.RandomState(0)
  a = rs.randn(2, *sample).astype(np.float32)
  w = rs.randn(*w_shape).astype(np.float32)
  want = tfg.run_kernel(op, [a, w])[0]
  af, wf, rf = a.reshape(2, E).astype(np.float64), w.reshape(-1).astype(np.float64), idx.reshape(E, -1)
  got = np.zeros((2, rf.shape[1]))
  for o in range(rf.shape[1]):
    bs = np.nonzero(rf[:, o])[0]
    got[:, o] = (af[:, bs] * wf[rf[bs, o] - 1]).sum(axis=1)
  if not np.allclose(got.reshape(want.shape), want, rtol=1e-4, atol=1e-5):
    raise tfg.Unsupported("extracted structure of %s does not reproduce the kernel" % op.type)
  _cache[k] = idx
  return idx


def linear_structure(op, a_shape, extra_inputs):
  """unary linear operator (AvgPool): C[b,o] = coefficient of input element b in output element o"""
  k = _key(op, (a_shape,))
  if k in _cache:
    return _cache[k]
  sample = tuple(a_shape[1:])
  E = int(np.prod(sample))
  basis = np.zeros((E, E), dtype=np.float32)
  basis[np.arange(E), np.arange(E)] = 1.0
  res = tfg.run_kernel(op, [basis.reshape((E,) + sample)] + list(extra_inputs))[0]
  _cache[k] = res
  return res


def apply(it, op, ins):
  b = it.b
  t = op.type
  if t in ("MatMul", "BatchMatMulV2", "Conv2D", "DepthwiseConv2dNative"):
    A, W = ins[0], ins[1]
    if t in ("MatMul", "BatchMatMulV2"):
      ta = op.get_attr("transpose_a") if t == "MatMul" else op.get_attr("adj_x")
      if ta:
        raise tfg.Unsupported("transposed data operand")
      if np.ndim(W) != 2:
        raise tfg.Unsupported("batched weight operand")
    a_shape, w_shape = tuple(np.shape(A)), tuple(np.shape(W))
    R = bilinear_structure(op, a_shape, w_shape)
    A, W = it.lift(A), it.lift(W)
    N = a_shape[0]
    E = R.shape[0]
    out_sample = R.shape[1:]
    Af = A.reshape(N, E)
    Wf = W.reshape(-1)
    Rf = R.reshape(E, -1)
    out = np.empty((N, Rf.shape[1]), dtype=object)
    tag = t
    for o in range(Rf.shape[1]):
      bs = np.nonzero(Rf[:, o])[0]
      for n in range(N):
        pairs = [(Af[n, bi], Wf[Rf[bi, o] - 1]) for bi in bs]
        # drop structurally zero products (constant zero operand)
        pairs = [(x, w) for (x, w) in pairs if not (_is_zero(b, x) or _is_zero(b, w))]
        out[n, o] = b.lin(tag, pairs) if pairs else b.const(0.0)
    return [out.reshape((N,) + tuple(out_sample))]
  if t == "AvgPool":
    A = ins[0]
    a_shape = tuple(np.shape(A))
    C = linear_structure(op, a_shape, [])
    A = it.lift(A)
    N, E = a_shape[0], C.shape[0]
    Af = A.reshape(N, E)
    Cf = C.reshape(E, -1)
    out = np.empty((N, Cf.shape[1]), dtype=object)
    for o in range(Cf.shape[1]):
      bs = np.nonzero(Cf[:, o])[0]
      for n in range(N):
        out[n, o] = b.lin("AvgPool", [(b.const(Cf[bi, o]), Af[n, bi]) for bi in bs])
    return [out.reshape((N,) + tuple(C.shape[1:]))]
  raise tfg.Unsupported("linear op " + t)


def _is_zero(b, n):
  return n.op == "fconst" and (n.attr & 0x7FFFFFFF) == 0
