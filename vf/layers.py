"""Tracing of (quantized and stock) Keras layers with symbolic inputs *and* symbolic weights."""
import os
os.environ.setdefault("TF_CPP_MIN_LOG_LEVEL", "3")
import numpy as np
import tensorflow as tf
from . import ir, tfg

SPECS = {
    "QDense": dict(stock="Dense", qattrs=["_kernel", "bias"], sattrs=["_kernel", "bias"], qargs=["kernel_quantizer", "bias_quantizer"]),
    "QConv1D": dict(stock="Conv1D", qattrs=["_kernel", "bias"], sattrs=["_kernel", "bias"], qargs=["kernel_quantizer", "bias_quantizer"]),
    "QConv2D": dict(stock="Conv2D", qattrs=["_kernel", "bias"], sattrs=["_kernel", "bias"], qargs=["kernel_quantizer", "bias_quantizer"]),
    "QDepthwiseConv2D": dict(stock="DepthwiseConv2D", qattrs=["depthwise_kernel", "bias"], sattrs=["_kernel", "bias"],
                             qargs=["depthwise_quantizer", "bias_quantizer"]),
    "QSeparableConv2D": dict(stock="SeparableConv2D", qattrs=["depthwise_kernel", "pointwise_kernel", "bias"],
                             sattrs=["depthwise_kernel", "pointwise_kernel", "bias"], qargs=["depthwise_quantizer", "pointwise_quantizer", "bias_quantizer"]),
    "QSeparableConv1D": dict(stock="SeparableConv1D", qattrs=["depthwise_kernel", "pointwise_kernel", "bias"],
                             sattrs=["depthwise_kernel", "pointwise_kernel", "bias"], qargs=["depthwise_quantizer", "pointwise_quantizer", "bias_quantizer"]),
}


def qk():
  import qkeras
  return qkeras


def K3():
  """the Keras the library itself builds on (`import tensorflow.keras`): after qkeras is imported the lazy attribute
  `tf.keras` resolves to the legacy tf_keras package, which is NOT what the quantized layers subclass"""
  import tensorflow.keras as keras
  return keras


def weight_shapes(layer):
  return [tuple(int(d) for d in w.shape) for w in layer.weights]


def weight_attrs(layer):
  """attribute names under which the layer object holds its weight variables, in weight order (found by identity)"""
  names = []
  for w in layer.weights:
    hit = [k for k, v in vars(layer).items() if v is w]
    if not hit:
      raise RuntimeError("cannot locate the attribute holding weight %s of %s" % (getattr(w, "name", w), type(layer).__name__))
    names.append(sorted(hit, key=lambda k: (not k.startswith("_"), k))[0] if any(k.startswith("_") for k in hit) else hit[0])
  return names


def inject_call(layer, attrs):
  """python function (x, *weights) -> layer.call(x) with the weight attributes replaced by the given tensors"""
  def f(x, *ws):
    for n, w in zip(attrs, ws):
      object.__setattr__(layer, n, w)
    return layer.call(x)
  return f


def reference_call(stock, sattrs, quantizers, activation):
  """stock layer on q_i(w_i), followed by the activation quantizer"""
  def f(x, *ws):
    for n, w, q in zip(sattrs, ws, quantizers):
      object.__setattr__(stock, n, q(w) if q is not None else w)
    y = stock.call(x)
    if activation is not None:
      y = activation(y)
    return y
  return f


class MultiTraced(object):
  """fn(*tensors) traced on symbolic tensors named by `names` with the given shapes, in builder b"""

  def __init__(self, fn, names, shapes, builder):
    self.b = builder
    self.it = tfg.Interp(builder)
    self.cf = tfg.trace(fn, *[tf.TensorSpec(s, tf.float32) for s in shapes])
    self.ins = [tfg.sym_input(builder, n, s) for n, s in zip(names, shapes)]
    outs, self.val = self.it.run(self.cf, self.ins)
    self.outputs = [self.it.lift(o) for o in outs]
    self.out = self.outputs[0]

  def input_nodes(self):
    res = []
    for a in self.ins:
      res += list(a.reshape(-1)) if a.ndim else [a[()]]
    return res


def witness_tensors(w, names, shapes):
  """dict name->value (flat symbolic names) -> list of numpy tensors"""
  out = []
  for n, s in zip(names, shapes):
    arr = np.zeros(s, dtype=np.float32)
    if not s:
      arr[()] = w.get(n, 0.0)
    else:
      for idx in np.ndindex(*s):
        arr[idx] = w.get(n + "".join("_%d" % k for k in idx), 0.0)
    out.append(arr)
  return out
