"""Engine A/C front end: interpret a traced TensorFlow graph over arrays of vf.ir nodes.

The graph is whatever TensorFlow's tracer produced from the *current* source of
/repo (tf.function(...).get_concrete_function); nothing about qkeras is encoded
by hand.  Ops without symbolic operands are executed by the real TF kernels;
pure data-movement ops are executed by the real TF kernels on arrays of node
ids; arithmetic is mapped 1:1 to ir nodes; transcendental kernels become
contract stubs.
"""
import os
os.environ.setdefault("TF_CPP_MIN_LOG_LEVEL", "3")
import numpy as np
import tensorflow as tf
from tensorflow.python.eager import context as _ctx
from tensorflow.python.eager import execute as _execute
from tensorflow.python.framework import tensor_util
from tensorflow.core.framework import tensor_shape_pb2, attr_value_pb2
from . import ir, evalr


class Unsupported(Exception):
  pass


def is_sym(v):
  return isinstance(v, np.ndarray) and v.dtype == object


DATA_MOVEMENT = set("""Reshape Tile Pack Unpack ConcatV2 StridedSlice Slice ExpandDims Squeeze Transpose
BroadcastTo GatherV2 Pad PadV2 MirrorPad Split SplitV ReverseV2 SpaceToBatchND BatchToSpaceND Fill
Snapshot""".split())
PASS_THROUGH = set("Identity StopGradient PreventGradient IdentityN".split())


def _attr_tuple(op):
  flat = []
  for a in op.op_def.attr:
    try:
      v = op.get_attr(a.name)
    except ValueError:
      continue
    flat.append(a.name)
    flat.append(_conv_attr(v))
  return tuple(flat)


def _conv_attr(v):
  if isinstance(v, tf.DType):
    return v.as_datatype_enum
  if isinstance(v, tensor_shape_pb2.TensorShapeProto):
    return tf.TensorShape(v).as_list() if not v.unknown_rank else None
  if isinstance(v, (list, tuple)):
    return [_conv_attr(x) for x in v]
  if isinstance(v, attr_value_pb2.NameAttrList):
    return v
  return v


def run_kernel(op, values):
  """Execute the real kernel of `op` eagerly on concrete numpy inputs."""
  ins = []
  for t, v in zip(op.inputs, values):
    ins.append(tf.constant(v, dtype=t.dtype))
  with tf.device("/cpu:0"):
    res = _execute.execute(op.type.encode(), len(op.outputs), inputs=ins, attrs=_attr_tuple(op), ctx=_ctx.context())
  return [r.numpy() for r in res]


class Interp(object):
  def __init__(self, builder, linear_mode="opaque"):
    self.b = builder
    self.linear_mode = linear_mode
    self.kernel_calls = 0

  # -- helpers ---------------------------------------------------------------
  def lift(self, v):
    if is_sym(v):
      return v
    v = np.asarray(v)
    if v.dtype == object:
      return v
    out = np.empty(v.shape, dtype=object)
    flat = out.reshape(-1) if v.size else out
    src = v.reshape(-1)
    if v.dtype == np.bool_:
      for i in range(src.size):
        flat[i] = self.b.const(bool(src[i]))
    else:
      src = src.astype(np.float32)
      for i in range(src.size):
        flat[i] = self.b.const(src[i])
    return out

  def ew(self, f, *arrs):
    arrs = [self.lift(a) for a in arrs]
    shape = np.broadcast_shapes(*[a.shape for a in arrs])
    bc = [np.broadcast_to(a, shape).reshape(-1) for a in arrs]
    out = np.empty(shape, dtype=object)
    flat = out.reshape(-1)
    if out.ndim == 0:
      out[()] = f(*[a[0] for a in bc])
      return out
    for i in range(flat.size):
      flat[i] = f(*[a[i] for a in bc])
    return out

  def ids(self, v):
    v = self.lift(v)
    out = np.empty(v.shape, dtype=np.float32)
    of = out.reshape(-1)
    vf = v.reshape(-1)
    for i in range(vf.size):
      assert vf[i].nid < (1 << 24)
      of[i] = vf[i].nid
    if out.ndim == 0:
      out = np.float32(vf[0].nid)
    return out

  def from_ids(self, a):
    a = np.asarray(a)
    out = np.empty(a.shape, dtype=object)
    of = out.reshape(-1) if a.ndim else out
    af = a.reshape(-1)
    if a.ndim == 0:
      out[()] = self.b.nodes[int(af[0])]
      return out
    for i in range(af.size):
      of[i] = self.b.nodes[int(af[i])]
    return out

  # -- main ------------------------------------------------------------------
  def run(self, cf, inputs, var_syms=None, graph=None, capture_vals=None):
    """cf: ConcreteFunction; inputs: list of object arrays / numpy arrays for the explicit
    arguments; var_syms: {variable name or handle id: object array} for symbolic variable reads.
    returns (outputs, values-by-tensor-name)"""
    g = graph or cf.graph
    val = {}
    var_syms = var_syms or {}
    n_explicit = len(g.inputs) - len(g.internal_captures)
    for t, v in zip(g.inputs[:n_explicit], inputs):
      val[t.name] = v
    self.resource = {}
    if capture_vals is not None:
      for t, v in zip(g.inputs[n_explicit:], capture_vals):
        val[t.name] = v
    else:
      for ext, internal in g.captures:
        if internal.dtype == tf.resource:
          var = None
          for vv in g.variables:
            if vv.handle is ext:
              var = vv
          self.resource[internal.name] = var
          val[internal.name] = ("resource", var)
        else:
          val[internal.name] = ext.numpy()
    # only the operations the outputs depend on are interpreted (dead sub-graphs, e.g. batch statistics that an inference
    # path computes and discards, and state updates without data outputs are skipped; the latter are recorded)
    needed, stack = set(), [t.op for t in g.outputs]
    while stack:
      o = stack.pop()
      if o.name in needed:
        continue
      needed.add(o.name)
      stack.extend(t.op for t in o.inputs)
    for op in g.get_operations():
      if op.name not in needed:
        if op.type in ("AssignAddVariableOp", "AssignVariableOp", "AssignSubVariableOp"):
          self.effects = getattr(self, "effects", []) + [op.name]
        continue
      if op.type == "Placeholder":
        if op.outputs[0].name not in val:
          raise Unsupported("unbound placeholder " + op.name)
        continue
      ins = [val[t.name] for t in op.inputs]
      outs = self.step(op, ins, var_syms, g)
      for o, v in zip(op.outputs, outs):
        if is_sym(v) or isinstance(v, np.ndarray):
          if o.shape.is_fully_defined() and tuple(o.shape.as_list()) != tuple(np.shape(v)):
            raise Unsupported("shape mismatch at %s: %s vs %s" % (op.name, o.shape, np.shape(v)))
        val[o.name] = v
    outs = [val[t.name] for t in g.outputs]
    return outs, val

  def step(self, op, ins, var_syms, g):
    t = op.type
    b = self.b
    if t == "Const":
      return [tensor_util.MakeNdarray(op.get_attr("value"))]
    if t == "ReadVariableOp":
      kind, var = ins[0]
      key = var.name if var is not None else None
      for k in (key, id(var)):
        if k in var_syms:
          return [var_syms[k]]
      return [var.numpy()]
    if t in ("NoOp", "Assert"):
      return []
    if t in ("RandomUniform", "StatelessRandomUniformV2"):
      shape = [int(i) for i in np.asarray(ins[0]).reshape(-1)] if t == "RandomUniform" else [int(i) for i in np.asarray(ins[0]).reshape(-1)]
      out = np.empty(shape, dtype=object)
      of = out.reshape(-1) if out.ndim else out
      if out.ndim == 0:
        out[()] = b.uniform(origin=op.name)
      else:
        for i in range(of.size):
          of[i] = b.uniform(origin="%s[%d]" % (op.name, i))
      return [out]
    if t in ("StatelessWhile", "While"):
      return self.while_loop(op, ins, var_syms, g)
    if t in ("PartitionedCall", "StatefulPartitionedCall"):
      from tensorflow.python.framework import function_def_to_graph as f2g
      lib = {f.signature.name: f for f in g.as_graph_def().library.function}
      fg = f2g.function_def_to_graph(lib[op.get_attr("f").name])
      outs, _ = self.run(None, list(ins), var_syms, graph=fg, capture_vals=[])
      return list(outs)
    if t in ("StatelessIf", "If"):
      pred = ins[0]
      if is_sym(pred):
        raise Unsupported(t + " on a symbolic predicate")
      from tensorflow.python.framework import function_def_to_graph as f2g
      lib = {f.signature.name: f for f in g.as_graph_def().library.function}
      br = op.get_attr("then_branch" if bool(np.asarray(pred)) else "else_branch")
      fg = f2g.function_def_to_graph(lib[br.name])
      outs, _ = self.run(None, list(ins[1:]), var_syms, graph=fg, capture_vals=[])
      return list(outs)
    if t in ("AssignAddVariableOp", "AssignVariableOp", "AssignSubVariableOp") and not op.outputs:
      # state updates have no data output; they are outside what the traced outputs denote (recorded, not modelled)
      self.effects = getattr(self, "effects", []) + [op.name]
      return []
    if t == "Identity" and "VFUF_" in op.name:
      # marker placed by a harness: an uninterpreted tensor function (real relaxation only)
      tag = op.name.split("VFUF_")[1].split("/")[0].split(":")[0]
      x = self.lift(ins[0])
      args = list(x.reshape(-1)) if x.ndim else [x[()]]
      out = np.empty(x.shape, dtype=object)
      of = out.reshape(-1) if x.ndim else out
      for i in range(len(args)):
        if x.ndim:
          of[i] = b.uf(tag, i, args)
        else:
          out[()] = b.uf(tag, i, args)
      return [out]
    if not any(is_sym(i) for i in ins):
      if t in PASS_THROUGH:
        return list(ins)
      if any(isinstance(i, tuple) for i in ins):
        raise Unsupported("resource op " + t)
      self.kernel_calls += 1
      return run_kernel(op, ins)
    if t in PASS_THROUGH:
      return list(ins)
    if t in DATA_MOVEMENT:
      vals = []
      for ten, v in zip(op.inputs, ins):
        if ten.dtype == tf.float32:
          vals.append(self.ids(v))
        elif is_sym(v):
          raise Unsupported("symbolic non-float operand of " + t)
        else:
          vals.append(v)
      self.kernel_calls += 1
      res = run_kernel(op, vals)
      return [self.from_ids(r) for r in res]
    if t in ("ZerosLike", "OnesLike"):
      return [np.full(np.shape(ins[0]), 0.0 if t == "ZerosLike" else 1.0, dtype=np.float32)]
    if t in ("Shape", "Rank", "Size"):
      shp = np.shape(ins[0])
      dt = op.outputs[0].dtype.as_numpy_dtype
      return [np.asarray({"Shape": list(shp), "Rank": len(shp), "Size": int(np.prod(shp))}[t], dtype=dt)]
    ew = self.ew
    if t in ("Mul", "AddV2", "Add", "Sub", "RealDiv", "Div"):
      f = {"Mul": b.mul, "AddV2": b.add, "Add": b.add, "Sub": b.sub, "RealDiv": b.div, "Div": b.div}[t]
      return [ew(f, *ins)]
    if t == "AddN":
      acc = ins[0]
      for x in ins[1:]:
        acc = ew(b.add, acc, x)
      return [acc]
    if t == "Neg": return [ew(b.neg, *ins)]
    if t == "Abs": return [ew(b.abs, *ins)]
    if t == "Round": return [ew(b.round, *ins)]
    if t == "Rint": return [ew(b.round, *ins)]
    if t == "Floor": return [ew(b.floor, *ins)]
    if t == "Ceil": return [ew(b.ceil, *ins)]
    if t == "Sqrt": return [ew(b.sqrt, *ins)]
    if t == "Rsqrt": return [ew(b.rsqrt, *ins)]
    if t in ("TruncateMod", "FloorMod", "Mod"):
      # exact when the divisor is a constant power of two: x - trunc|floor(x / y) * y involves no rounding
      y = ins[1]
      if is_sym(y) or not np.all(np.asarray(y) > 0) or not np.all(np.log2(np.asarray(y, dtype=np.float64)) % 1 == 0):
        raise Unsupported(t + " with a divisor that is not a constant positive power of two")
      rd = b.trunc if t == "TruncateMod" else b.floor
      return [ew(lambda x, yy: b.sub(x, b.mul(rd(b.div(x, yy)), yy)), *ins)]
    if t == "Square": return [ew(lambda a: b.mul(a, a), *ins)]
    if t == "SquaredDifference": return [ew(lambda x, y: b.mul(b.sub(x, y), b.sub(x, y)), *ins)]
    if t == "Maximum": return [ew(b.fmax, *ins)]
    if t == "Minimum": return [ew(b.fmin, *ins)]
    if t == "Sign": return [ew(b.sign, *ins)]
    if t == "Relu":
      z = b.const(0.0)
      # Eigen: features.cwiseMax(0) with NaN propagation
      return [ew(lambda a: b.fmax(a, z), *ins)]
    if t == "Relu6":
      z, s = b.const(0.0), b.const(6.0)
      return [ew(lambda a: b.fmin(b.fmax(a, z), s), *ins)]
    if t == "LeakyRelu":
      al = b.const(op.get_attr("alpha")); z = b.const(0.0)
      return [ew(lambda a: b.ite(b.cmp("gt", a, z), a, b.mul(a, al)), *ins)]
    if t == "ReluGrad":       # (gradients, features) -> gradients * (features > 0)
      z = b.const(0.0)
      return [ew(lambda gr, f: b.ite(b.cmp("gt", f, z), gr, z), *ins)]
    if t == "LeakyReluGrad":
      al = b.const(op.get_attr("alpha")); z = b.const(0.0)
      return [ew(lambda gr, f: b.ite(b.cmp("gt", f, z), gr, b.mul(gr, al)), *ins)]
    if t == "TanhGrad":       # (y, dy) -> dy * (1 - y*y)
      one = b.const(1.0)
      return [ew(lambda y, dy: b.mul(dy, b.sub(one, b.mul(y, y))), *ins)]
    if t == "SigmoidGrad":    # (y, dy) -> dy * y * (1 - y)
      one = b.const(1.0)
      return [ew(lambda y, dy: b.mul(b.mul(dy, y), b.sub(one, y)), *ins)]
    if t in ("Less", "LessEqual", "Greater", "GreaterEqual", "Equal", "NotEqual"):
      o = {"Less": "lt", "LessEqual": "leq", "Greater": "gt", "GreaterEqual": "geq", "Equal": "eq", "NotEqual": "ne"}[t]
      return [ew(lambda x, y: b.cmp(o, x, y), *ins)]
    if t in ("SelectV2", "Select"):
      return [ew(b.ite, *ins)]
    if t == "LogicalOr": return [ew(lambda x, y: b.b_or(x, y), *ins)]
    if t == "LogicalAnd": return [ew(lambda x, y: b.b_and(x, y), *ins)]
    if t == "LogicalNot": return [ew(b.b_not, *ins)]
    if t == "Cast":
      src, dst = op.get_attr("SrcT"), op.get_attr("DstT")
      if src == tf.bool and dst == tf.float32:
        return [ew(b.b2f, *ins)]
      if src == dst or (src == tf.float32 and dst == tf.float32):
        return [ins[0]]
      raise Unsupported("Cast %s->%s on symbolic" % (src, dst))
    if t == "Log":
      return [ew(lambda a: b.log(a, origin=op.name), *ins)]
    if t == "Pow":
      base = ins[0]
      if is_sym(base) or not np.all(np.asarray(base) == 2.0):
        raise Unsupported("Pow with base != 2")
      return [ew(lambda e: b.pow2(e, origin=op.name), np.broadcast_to(self.lift(ins[1]), np.broadcast_shapes(np.shape(base), np.shape(ins[1]))))]
    if t == "Tanh":
      return [ew(lambda a: b.bounded("tanh", a, -1.0, 1.0, origin=op.name), *ins)]
    if t == "Sigmoid":
      return [ew(lambda a: b.bounded("sigmoid", a, 0.0, 1.0, origin=op.name), *ins)]
    if t in ("Mean", "Sum", "Max", "Min", "Any", "All"):
      return [self.reduce(op, t, ins)]
    if t == "BiasAdd":
      x, bias = self.lift(ins[0]), self.lift(ins[1])
      fmt = op.get_attr("data_format").decode()
      if fmt == "NHWC" or x.ndim <= 2:
        return [ew(b.add, x, bias)]
      shape = [1] * x.ndim
      shape[1] = bias.shape[0]
      return [ew(b.add, x, bias.reshape(shape))]
    if t in ("MatMul", "BatchMatMulV2", "Conv2D", "DepthwiseConv2dNative", "AvgPool", "Conv2DBackpropInput", "Einsum"):
      from . import linear
      return linear.apply(self, op, ins)
    raise Unsupported("op " + t)

  def reduce(self, op, t, ins):
    b = self.b
    x = self.lift(ins[0])
    ax = tuple(sorted(set(int(i) % max(x.ndim, 1) for i in np.atleast_1d(ins[1])))) if x.ndim else ()
    keep = op.get_attr("keep_dims")
    rest = tuple(i for i in range(x.ndim) if i not in ax)
    xm = np.transpose(x, ax + rest) if x.ndim else x
    n = int(np.prod([x.shape[i] for i in ax])) if ax else 1
    xm = xm.reshape((n,) + tuple(x.shape[i] for i in rest))
    red = {"Mean": b.add, "Sum": b.add, "Max": b.fmax, "Min": b.fmin,
           "Any": lambda p, q: b.b_or(p, q), "All": lambda p, q: b.b_and(p, q)}[t]
    acc = xm[0]
    for k in range(1, n):
      acc = self.ew(red, acc, xm[k])
    acc = np.asarray(acc, dtype=object)
    if not isinstance(acc, np.ndarray) or acc.dtype != object:
      acc = self.lift(acc)
    if t == "Mean":
      cnt = b.const(np.float32(n))
      acc = self.ew(lambda a: b.div(a, cnt), acc)
    if keep:
      acc = acc.reshape([1 if i in ax else s for i, s in enumerate(x.shape)])
    return acc

  def while_loop(self, op, ins, var_syms, g):
    """StatelessWhile with a static maximum: unrolled exactly (condition kept)."""
    from tensorflow.python.framework import function_def_to_graph as f2g
    lib = {f.signature.name: f for f in g.as_graph_def().library.function}
    cond_g = f2g.function_def_to_graph(lib[op.get_attr("cond").name])
    body_g = f2g.function_def_to_graph(lib[op.get_attr("body").name])
    state = list(ins)
    b = self.b
    # TF's while_loop(maximum_iterations=k) adds a counter to the state and to cond; we simply unroll
    # until the (possibly symbolic) condition is constant-false or a safety cap is reached.
    cap = 12
    alive = None      # symbolic "still running" flag
    for it in range(cap):
      c, _ = self.run(None, state, var_syms, graph=cond_g, capture_vals=[])
      c = c[0]
      if is_sym(c):
        c0 = c.reshape(-1)[0] if c.ndim else c[()]
        if c0.op == "bconst":
          c = np.asarray(bool(c0.attr))
      if not is_sym(c):
        if not bool(np.asarray(c)):
          break
        cnode = None
      else:
        cnode = c.reshape(-1)[0] if c.ndim else c[()]
      new, _ = self.run(None, state, var_syms, graph=body_g, capture_vals=[])
      if cnode is None and alive is None:
        state = list(new)
      else:
        flag = cnode if alive is None else (b.b_and(alive, cnode) if cnode is not None else alive)
        alive = flag
        merged = []
        for o, nw in zip(state, new):
          if is_sym(o) or is_sym(nw):
            merged.append(self.ew(lambda nn, oo: b.ite(flag, nn, oo), nw, o))
          else:
            if np.array_equal(np.asarray(o), np.asarray(nw)):
              merged.append(nw)
            elif np.asarray(nw).dtype.kind in "fb":
              merged.append(self.ew(lambda nn, oo: b.ite(flag, nn, oo), nw, o))
            else:
              # integer loop counters: they only feed the static bound, which must not depend on `flag`
              merged.append(nw)
        state = merged
    else:
      raise Unsupported("while loop not bounded by %d iterations" % cap)
    return state


# ---------------------------------------------------------------------------
KERNELS = {
    "log": lambda a: tf.math.log(tf.constant(a, tf.float32)).numpy(),
    "pow2": lambda e: tf.pow(tf.constant(2.0, tf.float32), tf.constant(e, tf.float32)).numpy(),
    "tanh": lambda a: tf.math.tanh(tf.constant(a, tf.float32)).numpy(),
    "sigmoid": lambda a: tf.math.sigmoid(tf.constant(a, tf.float32)).numpy(),
}


def concrete_env(builder, roots, input_vals, free_vals=None):
  """Evaluate roots on concrete inputs; stub variables are bound to the real kernels' results.
  returns dict nid -> value"""
  env = {}
  for n in builder.inputs:
    if n.attr in input_vals:
      env[n.nid] = np.float32(input_vals[n.attr])
  free_vals = free_vals or {}
  # stubs in creation order: their arguments only depend on earlier stubs
  for s in builder.stubs:
    r = s["res"]
    if r.attr in free_vals:
      env[r.nid] = np.float32(free_vals[r.attr]); continue
    if s["kind"] == "uniform":
      continue
    try:
      a = evalr.eval_nodes([s["arg"]], env)[s["arg"].nid]
      if s["kind"] == "opmul":
        g = evalr.eval_nodes([s["arg2"]], env)[s["arg2"].nid]
    except KeyError:
      continue
    if s["kind"] == "opmul":
      with np.errstate(all="ignore"):
        env[r.nid] = evalr.flush(evalr.flush(g) * evalr.flush(a))
      continue
    env[r.nid] = np.float32(KERNELS[s["kind"]](np.float32(a)))
  return evalr.eval_nodes(roots, env)


def trace(fn, *specs):
  return tf.function(fn).get_concrete_function(*specs)


def sym_input(builder, name, shape):
  out = np.empty(shape, dtype=object)
  if out.ndim == 0:
    out[()] = builder.input(name)
    return out
  of = out.reshape(-1)
  for i, idx in enumerate(np.ndindex(*shape)):
    of[i] = builder.input(name + "".join("_%d" % k for k in idx))
  return out
