"""Helpers shared by the quantizer-level properties (C01-C10): build the real quantizer object,
trace it, interpret the graph, validate the translation against the real kernels."""
import os
os.environ.setdefault("TF_CPP_MIN_LOG_LEVEL", "3")
import numpy as np
import tensorflow as tf
from . import ir, tfg, evalr

_Q = None


def Q():
  global _Q
  if _Q is None:
    from qkeras import quantizers as q
    _Q = q
  return _Q


def make(cls, kw):
  kw = dict(kw)
  if isinstance(kw.get("post_training_scale"), (list, tuple)):
    kw["post_training_scale"] = np.array(kw["post_training_scale"], dtype=np.float32)   # the API takes an array
  return getattr(Q(), cls)(**kw)


def cfg_str(cls, kw):
  return "%s(%s)" % (cls, ",".join("%s=%r" % (k, kw[k]) for k in sorted(kw)))


class Traced(object):
  """A quantizer traced on a symbolic tensor."""

  def __init__(self, q, shape=(), name="x", builder=None, fn=None, var_syms=None, extra_inputs=None):
    self.q = q
    self.shape = tuple(shape)
    self.b = builder or ir.Builder()
    self.it = tfg.Interp(self.b)
    self.cf = tfg.trace(fn or (lambda x: q(x)), tf.TensorSpec(self.shape, tf.float32))
    self.X = tfg.sym_input(self.b, name, self.shape)
    self.vars = {}
    vs = {}
    for vname, sym in (var_syms or {}).items():
      vs[vname] = sym
    outs, self.val = self.it.run(self.cf, [self.X], var_syms=vs)
    self.outputs = [self.it.lift(o) for o in outs]
    self.out = self.outputs[0]

  def tensor(self, t):
    """value of a graph tensor captured during tracing (e.g. q.scale)"""
    return self.val[t.name]

  def xs(self):
    return list(self.X.reshape(-1)) if self.X.ndim else [self.X[()]]

  def outs(self):
    return list(self.out.reshape(-1)) if self.out.ndim else [self.out[()]]


def finite_normal(x):
  return ir.L("(not (or (fp.isNaN {0}) (fp.isInfinite {0}) (fp.isSubnormal {0})))", x)


def abs_lt(x, bound):
  return ir.L("(fp.lt (fp.abs {0}) %s)" % ir.fp_lit(bound), x)


def abs_leq(x, bound):
  return ir.L("(fp.leq (fp.abs {0}) %s)" % ir.fp_lit(bound), x)


def interesting_points(breaks, rng, n_random=40, scale=4.0):
  """breakpoints +-1 ulp, +-0, tiny, huge, random"""
  old = np.seterr(all="ignore")
  pts = [0.0, -0.0, 1e-30, -1e-30, 2.0 ** -126, -2.0 ** -126, 1.5 * 2.0 ** -126, 3e38, -3e38, 1.0, -1.0]
  for v in breaks:
    v = np.float32(v)
    pts += [v, np.nextafter(v, np.float32(np.inf), dtype=np.float32), np.nextafter(v, np.float32(-np.inf), dtype=np.float32)]
  pts += list((rng.randn(n_random) * scale).astype(np.float32))
  pts += list((rng.randn(n_random // 4) * scale * 1e3).astype(np.float32))
  res = [np.float32(p) for p in pts]
  np.seterr(**old)
  return res


def validate_scalar(tr, call, points):
  """Compare the concrete evaluation of the translated graph with the real eager call.
  returns list of mismatches (x, encoded, real)"""
  bad = []
  o = tr.outs()[0]
  name = tr.xs()[0].attr
  for v in points:
    enc = tfg.concrete_env(tr.b, [o], {name: v})[o.nid]
    real = np.float32(np.asarray(call(tf.constant(v, tf.float32))).reshape(-1)[0])
    if not evalr.same(enc, real):
      bad.append((float(v), float(enc), float(real)))
  return bad


def validate_tensor(tr, call, tensors, free_fn=None):
  bad = []
  outs = tr.outs()
  names = [n.attr for n in tr.xs()]
  for t in tensors:
    t = np.asarray(t, dtype=np.float32).reshape(tr.shape)
    env = dict(zip(names, t.reshape(-1)))
    res = tfg.concrete_env(tr.b, outs, env)
    enc = np.array([res[o.nid] for o in outs], dtype=np.float32)
    real = np.asarray(call(tf.constant(t))).astype(np.float32).reshape(-1)
    for a, r in zip(enc, real):
      if not evalr.same(a, r):
        bad.append((t.tolist(), enc.tolist(), real.tolist()))
        break
  return bad


def log_contract_ok(a, L):
  """Python mirror of the (arithmetic-form) Log contract of vf.ir, computed with the same float32 operations;
  used to validate the contract against the real kernel."""
  import math
  F = np.float32
  a = F(a); L = F(L)
  bits = ir.f32_bits(a)
  E, M = (bits >> 23) & 0xFF, bits & 0x7FFFFF
  if bits >> 31 or E == 0 or E == 255:
    if a == 0:
      return bool(np.isinf(L) and L < 0)
    return True
  kf = F(E - 127)
  ln2, S = F(math.log(2.0)), F(ir.LOG_SLACK)
  kl = F(kf * ln2)
  k1 = F(F(kf + F(1.0)) * ln2)
  kh = F(F(kf + F(0.5)) * ln2)
  ok = F(kl - S) <= L <= F(k1 + S)
  if M < ir.SQRT2_MAN - ir.LOG_WIN:
    ok = ok and L <= F(kh - S)
  if M > ir.SQRT2_MAN + ir.LOG_WIN:
    ok = ok and L >= F(kh + S)
  if M > ir.LOG_WIN:
    ok = ok and L >= F(kl + S)
  if M < (1 << 23) - 2 * ir.LOG_WIN:
    ok = ok and L <= F(k1 - S)
  return bool(ok)


def validate_log_contract(n_random, rng, dense_windows=False):
  """evaluate tf.math.log on many float32 values and check the contract + monotonicity.  returns #violations, #points"""
  vals = []
  for E in range(1, 255):
    base = E << 23
    ms = [0, 1, 2, ir.LOG_WIN - 1, ir.LOG_WIN, ir.LOG_WIN + 1, ir.SQRT2_MAN - ir.LOG_WIN - 1, ir.SQRT2_MAN - ir.LOG_WIN, ir.SQRT2_MAN,
          ir.SQRT2_MAN + ir.LOG_WIN, ir.SQRT2_MAN + ir.LOG_WIN + 1, (1 << 23) - 2 * ir.LOG_WIN - 1, (1 << 23) - 2 * ir.LOG_WIN, (1 << 23) - 1]
    if dense_windows:
      ms += list(range(ir.SQRT2_MAN - 2 * ir.LOG_WIN, ir.SQRT2_MAN + 2 * ir.LOG_WIN, 3)) + list(range(0, 3 * ir.LOG_WIN, 3)) + \
          list(range((1 << 23) - 4 * ir.LOG_WIN, 1 << 23, 3))
    vals.extend(base | m for m in ms)
  vals.extend(int(v) for v in rng.randint(1 << 23, 255 << 23, size=n_random))
  arr = np.array(sorted(set(vals)), dtype=np.uint32).view(np.float32)
  Lg = tf.math.log(tf.constant(arr)).numpy()
  bad = 0
  for a, l in zip(arr, Lg):
    if not log_contract_ok(a, l):
      bad += 1
  return bad, len(arr)


def validate_pow2_contract():
  es = np.arange(-160, 141, dtype=np.float32)
  r = tf.pow(tf.constant(2.0, tf.float32), tf.constant(es)).numpy()
  bad = 0
  for e, v in zip(es, r):
    want = np.float32(0.0) if e < -126 else np.float32(np.inf) if e > 127 else np.float32(2.0 ** float(e))
    if not evalr.same(v, want):
      bad += 1
  return bad, len(es)


def set_learning_phase(phase):
  """K.learning_phase does not exist under the pinned Keras 3: environment stub (0 = inference, 1 = training)."""
  import tensorflow.keras.backend as K
  K.learning_phase = lambda: int(phase)
