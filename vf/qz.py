"""Helpers shared by the quantizer-level properties (C01-C10): build the real quantizer object,
trace it, interpret the graph, validate the translation against the real kernels."""
import os
os.environ.setdefault("TF_CPP_MIN_LOG_LEVEL", "3")
import numpy as np
import tensorflow as tf
from . import ir, tfg, evalr

_Q = None


def Q():
  global _Q
  if _Q is None:
    from qkeras import quantizers as q
    _Q = q
  return _Q


def make(cls, kw):
  return getattr(Q(), cls)(**kw)


def cfg_str(cls, kw):
  return "%s(%s)" % (cls, ",".join("%s=%r" % (k, kw[k]) for k in sorted(kw)))


class Traced(object):
  """A quantizer traced on a symbolic tensor."""

  def __init__(self, q, shape=(), name="x", builder=None, fn=None, var_syms=None, extra_inputs=None):
    self.q = q
    self.shape = tuple(shape)
    self.b = builder or ir.Builder()
    self.it = tfg.Interp(self.b)
    self.cf = tfg.trace(fn or (lambda x: q(x)), tf.TensorSpec(self.shape, tf.float32))
    self.X = tfg.sym_input(self.b, name, self.shape)
    self.vars = {}
    vs = {}
    for vname, sym in (var_syms or {}).items():
      vs[vname] = sym
    (self.out,), self.val = self.it.run(self.cf, [self.X], var_syms=vs)
    self.out = self.it.lift(self.out)

  def tensor(self, t):
    """value of a graph tensor captured during tracing (e.g. q.scale)"""
    return self.val[t.name]

  def xs(self):
    return list(self.X.reshape(-1)) if self.X.ndim else [self.X[()]]

  def outs(self):
    return list(self.out.reshape(-1)) if self.out.ndim else [self.out[()]]


def finite_normal(x):
  return ir.L("(not (or (fp.isNaN {0}) (fp.isInfinite {0}) (fp.isSubnormal {0})))", x)


def abs_lt(x, bound):
  return ir.L("(fp.lt (fp.abs {0}) %s)" % ir.fp_lit(bound), x)


def abs_leq(x, bound):
  return ir.L("(fp.leq (fp.abs {0}) %s)" % ir.fp_lit(bound), x)


def interesting_points(breaks, rng, n_random=40, scale=4.0):
  """breakpoints +-1 ulp, +-0, tiny, huge, random"""
  pts = [0.0, -0.0, 1e-30, -1e-30, 2.0 ** -126, -2.0 ** -126, 1.5 * 2.0 ** -126, 3e38, -3e38, 1.0, -1.0]
  for v in breaks:
    v = np.float32(v)
    pts += [v, np.nextafter(v, np.float32(np.inf), dtype=np.float32), np.nextafter(v, np.float32(-np.inf), dtype=np.float32)]
  pts += list((rng.randn(n_random) * scale).astype(np.float32))
  pts += list((rng.randn(n_random // 4) * scale * 1e3).astype(np.float32))
  return [np.float32(p) for p in pts]


def validate_scalar(tr, call, points):
  """Compare the concrete evaluation of the translated graph with the real eager call.
  returns list of mismatches (x, encoded, real)"""
  bad = []
  o = tr.outs()[0]
  name = tr.xs()[0].attr
  for v in points:
    enc = tfg.concrete_env(tr.b, [o], {name: v})[o.nid]
    real = np.float32(np.asarray(call(tf.constant(v, tf.float32))).reshape(-1)[0])
    if not evalr.same(enc, real):
      bad.append((float(v), float(enc), float(real)))
  return bad


def validate_tensor(tr, call, tensors, free_fn=None):
  bad = []
  outs = tr.outs()
  names = [n.attr for n in tr.xs()]
  for t in tensors:
    t = np.asarray(t, dtype=np.float32).reshape(tr.shape)
    env = dict(zip(names, t.reshape(-1)))
    res = tfg.concrete_env(tr.b, outs, env)
    enc = np.array([res[o.nid] for o in outs], dtype=np.float32)
    real = np.asarray(call(tf.constant(t))).astype(np.float32).reshape(-1)
    for a, r in zip(enc, real):
      if not evalr.same(a, r):
        bad.append((t.tolist(), enc.tolist(), real.tolist()))
        break
  return bad
