"""Option lattice over all 14 registered quantizer classes (used by C09, C10, C13)."""
import itertools
import random

BASE = {
    "quantized_bits": dict(bits=4, integer=1),
    "quantized_linear": dict(bits=4, integer=1),
    "binary": dict(),
    "ternary": dict(),
    "stochastic_ternary": dict(alpha="auto"),
    "stochastic_binary": dict(),
    "bernoulli": dict(),
    "quantized_relu": dict(bits=4, integer=1),
    "quantized_ulaw": dict(bits=4, integer=1),
    "quantized_tanh": dict(bits=4),
    "quantized_sigmoid": dict(bits=4),
    "quantized_po2": dict(bits=4),
    "quantized_relu_po2": dict(bits=4),
    "quantized_hswish": dict(bits=6, integer=2),
}

VARIATIONS = {
    "quantized_bits": [dict(symmetric=1), dict(keep_negative=False), dict(alpha=0.5), dict(alpha="auto"), dict(alpha="auto_po2"),
                       dict(use_stochastic_rounding=True), dict(alpha="auto", scale_axis=0), dict(alpha="auto_po2", scale_axis=0),
                       dict(qnoise_factor=0.5), dict(use_ste=False, qnoise_factor=0.5), dict(alpha="auto_po2", scale_axis=0, elements_per_scale=1),
                       dict(alpha="auto_po2", min_po2_exponent=-1, max_po2_exponent=0), dict(alpha="auto_po2", post_training_scale=[0.5, 0.25]),
                       dict(bits=8, integer=3), dict(bits=1, integer=0)],
    "quantized_linear": [dict(symmetric=0), dict(keep_negative=False), dict(alpha=0.5), dict(alpha="auto"), dict(alpha="auto_po2"),
                         dict(use_stochastic_rounding=True), dict(alpha="auto", scale_axis=0), dict(qnoise_factor=0.5), dict(bits=1, integer=0),
                         dict(bits=8, integer=3)],
    "binary": [dict(use_01=True), dict(alpha=0.5), dict(alpha="auto"), dict(alpha="auto_po2"), dict(use_stochastic_rounding=True),
               dict(alpha="auto", scale_axis=0), dict(alpha="auto", scale_axis=1, elements_per_scale=1),
               dict(alpha="auto_po2", min_po2_exponent=-1, max_po2_exponent=0), dict(alpha="auto_po2", scale_axis=0, use_01=True)],
    "ternary": [dict(alpha=0.5), dict(alpha="auto"), dict(alpha="auto_po2"), dict(alpha=1.0, threshold=0.5), dict(alpha="auto", use_stochastic_rounding=True),
                dict(alpha="auto", number_of_unrolls=2)],
    "stochastic_ternary": [dict(alpha="auto_po2"), dict(temperature=4.0), dict(use_real_sigmoid=False), dict(number_of_unrolls=2)],
    "stochastic_binary": [dict(alpha="auto"), dict(alpha=0.5), dict(temperature=4.0), dict(use_real_sigmoid=False), dict(alpha="auto_po2")],
    "bernoulli": [dict(alpha="auto"), dict(alpha=0.5), dict(temperature=4.0), dict(use_real_sigmoid=False)],
    "quantized_relu": [dict(use_sigmoid=1), dict(negative_slope=0.25), dict(use_stochastic_rounding=True), dict(relu_upper_bound=1.0, is_quantized_clip=False),
                       dict(is_quantized_clip=False), dict(qnoise_factor=0.5), dict(use_ste=False, qnoise_factor=0.5), dict(bits=8, integer=3)],
    "quantized_ulaw": [dict(symmetric=1), dict(u=100.0), dict(bits=6, integer=0)],
    "quantized_tanh": [dict(symmetric=True), dict(use_stochastic_rounding=True), dict(use_real_tanh=True), dict(bits=8)],
    "quantized_sigmoid": [dict(symmetric=True), dict(use_real_sigmoid=True), dict(use_stochastic_rounding=True), dict(bits=8)],
    "quantized_po2": [dict(max_value=2.0), dict(use_stochastic_rounding=True), dict(quadratic_approximation=True), dict(log2_rounding="floor"),
                      dict(qnoise_factor=0.5), dict(use_ste=False, qnoise_factor=0.5), dict(max_value=0.5), dict(bits=8)],
    "quantized_relu_po2": [dict(max_value=2.0), dict(negative_slope=0.25), dict(use_stochastic_rounding=True), dict(quadratic_approximation=True),
                           dict(log2_rounding="floor"), dict(qnoise_factor=0.5), dict(use_ste=False, qnoise_factor=0.5), dict(max_value=0.5)],
    "quantized_hswish": [dict(symmetric=1), dict(relu_shift=2, relu_upper_bound=4), dict(use_stochastic_rounding=True), dict(qnoise_factor=0.5),
                         dict(alpha=0.5), dict(bits=8, integer=3)],
}


def compatible(cls, kw):
  a = kw.get("alpha")
  if cls in ("quantized_bits", "quantized_hswish"):
    if a != "auto_po2" and any(kw.get(k) is not None for k in ("elements_per_scale", "min_po2_exponent", "max_po2_exponent")):
      return False
    if kw.get("post_training_scale") is not None and not isinstance(a, str):
      return False
    if kw.get("elements_per_scale") is not None and kw.get("scale_axis") is None:
      return False
    if kw.get("bits") == 1 and isinstance(a, str):
      return False
  if cls == "binary":
    if a != "auto_po2" and any(kw.get(k) is not None for k in ("min_po2_exponent", "max_po2_exponent")):
      return False
    if kw.get("elements_per_scale") is not None and (kw.get("scale_axis") is None or not isinstance(a, str)):
      return False
    if kw.get("scale_axis") is not None and not isinstance(a, str):
      return False
  if cls == "ternary":
    if isinstance(a, str) and kw.get("threshold") is not None:
      return False
    if not isinstance(a, str) and kw.get("use_stochastic_rounding"):
      return False
  if cls == "quantized_linear" and kw.get("bits") == 1 and isinstance(a, str):
    return False
  if cls == "quantized_relu" and kw.get("use_sigmoid") and kw.get("negative_slope"):
    return False
  return True


def merge(base, *vs):
  kw = dict(base)
  for v in vs:
    for k, val in v.items():
      if k in kw and k not in base and kw[k] != val:
        return None
      kw[k] = val
  return kw


def lattice(tier, seed, classes=None):
  out = []
  rng = random.Random(seed)
  for cls in BASE:
    if classes and cls not in classes:
      continue
    cfgs = [dict(BASE[cls])]
    singles = [merge(BASE[cls], v) for v in VARIATIONS[cls]]
    cfgs += [c for c in singles if c is not None]
    pairs = []
    for v1, v2 in itertools.combinations(VARIATIONS[cls], 2):
      c = merge(BASE[cls], v1, v2)
      if c is not None and c not in cfgs and c not in pairs:
        pairs.append(c)
    if tier == "thorough":
      cfgs += pairs
    else:
      rng.shuffle(pairs)
      cfgs += pairs[:2]
    for c in cfgs:
      if compatible(cls, c):
        out.append((cls, c))
  return out


def stochastic(cls, kw):
  return cls in ("stochastic_ternary", "stochastic_binary", "bernoulli") or bool(kw.get("use_stochastic_rounding"))


def shape_for(cls, kw):
  """scalar for element-wise configurations, a small matrix when the scale depends on the data"""
  a = kw.get("alpha")
  if isinstance(a, str) or cls in ("stochastic_ternary",) or (cls == "binary" and kw.get("use_stochastic_rounding")) or (
      cls in ("bernoulli", "stochastic_binary") and isinstance(a, str)):
    return (2, 2)
  if kw.get("post_training_scale") is not None:
    return (2, 2)
  return ()
