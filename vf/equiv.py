"""Engine C: do two traced computations denote the same function of their (symbolic) inputs?

Portfolio, in this order:
  1. identical hash-consed terms            -> equal for every input, by congruence (no solver)
  2. z3 real-arithmetic relaxation          -> can only *propose* a distinguishing input, which counts
                                               solely if it is confirmed on the two real objects
  3. exact QF_BVFP miter (cvc5)             -> unsat = equal for every input in the domain;
                                               sat = distinguishing input (again replayed)
"""
import time
import numpy as np
import z3

from . import ir, evalr, solve, harness


def flat(a):
  return list(a.reshape(-1)) if getattr(a, "ndim", 0) else [a[()]]


class Verdict(object):
  def __init__(self, kind, how, secs=0.0, witness=None, detail=None):
    self.kind, self.how, self.secs, self.witness, self.detail = kind, how, secs, witness, detail or {}

  def __repr__(self):
    return "Verdict(%s via %s, %.1fs)" % (self.kind, self.how, self.secs)


def structural(outsA, outsB):
  fa, fb = flat(outsA), flat(outsB)
  if len(fa) != len(fb):
    return False
  return all(a is c for a, c in zip(fa, fb))


def relaxation_witness(builder, outsA, outsB, inputs, lo=2.0 ** -6, hi=16.0, margin=1e-3, timeout_ms=20000, extra=None):
  """z3 Real relaxation: search inputs with |a_i - b_i| > margin for some i.  returns dict name->float or None"""
  fa, fb = flat(outsA), flat(outsB)
  vals, vars_ = evalr.to_z3_real(fa + fb)
  s = z3.Solver()
  s.set("timeout", timeout_ms)
  for n in inputs:
    v = vars_.get(n.attr)
    if v is None:
      continue
    s.add(z3.Or(v == 0, z3.And(v >= lo, v <= hi), z3.And(v <= -lo, v >= -hi)))
  for st in builder.stubs:
    r = vars_.get(st["res"].attr)
    if r is None:
      continue
    if st["kind"] == "uniform":
      s.add(r >= 0, r < 1)
    elif st["kind"] in ("tanh",):
      s.add(r >= -1, r <= 1)
    elif st["kind"] == "sigmoid":
      s.add(r >= 0, r <= 1)
    elif st["kind"] == "pow2":
      s.add(r > 0)
  if extra:
    s.add(*extra(vars_))
  diffs = []
  for a, c in zip(fa, fb):
    if a is c:
      continue
    if a.sort == "B":
      diffs.append(vals[a.nid] != vals[c.nid])
    else:
      diffs.append(vals[a.nid] - vals[c.nid] > margin)
      diffs.append(vals[c.nid] - vals[a.nid] > margin)
  if not diffs:
    return None
  s.add(z3.Or(*diffs))
  if s.check() != z3.sat:
    return None
  m = s.model()
  out = {}
  for n in inputs:
    v = vars_.get(n.attr)
    if v is None:
      out[n.attr] = 0.0
      continue
    val = m.eval(v, model_completion=True)
    out[n.attr] = float(val.as_fraction()) if z3.is_rational_value(val) else float(val.approx(20).as_fraction())
  for st in builder.stubs:
    if st["kind"] == "uniform":
      r = vars_.get(st["res"].attr)
      if r is not None:
        val = m.eval(r, model_completion=True)
        out[st["res"].attr] = float(val.as_fraction()) if z3.is_rational_value(val) else 0.5
  return out


def fp_miter(builder, outsA, outsB, domain, tag, timeout=900, solver="cvc5"):
  fa, fb = flat(outsA), flat(outsB)
  diffs = []
  for a, c in zip(fa, fb):
    if a is c:
      continue
    if a.sort == "B":
      diffs.append(ir.L("(not (= {0} {1}))", a, c))
    else:
      diffs.append(ir.L("(not (or (fp.eq {0} {1}) (and (fp.isNaN {0}) (fp.isNaN {1}))))", a, c))
  builder.close_stubs()
  body = "(or %s)" % " ".join("{%d}" % i for i in range(len(diffs)))
  smt = ir.build_smt(builder, list(domain) + [ir.L(body, *diffs)])
  return solve.run_smt(smt, solver, timeout=timeout, tag=tag), smt


def fp_miter_text(builder, outsA, outsB, domain):
  fa, fb = flat(outsA), flat(outsB)
  diffs = []
  for a, c in zip(fa, fb):
    if a is c:
      continue
    if a.sort == "B":
      diffs.append(ir.L("(not (= {0} {1}))", a, c))
    else:
      diffs.append(ir.L("(not (or (fp.eq {0} {1}) (and (fp.isNaN {0}) (fp.isNaN {1}))))", a, c))
  builder.close_stubs()
  body = "(or %s)" % " ".join("{%d}" % i for i in range(len(diffs)))
  return ir.build_smt(builder, list(domain) + [ir.L(body, *diffs)])


def decide(run, oid, builder, outsA, outsB, inputs, domain, confirm, meta, relax=True, fp=True, timeout=900, relax_kw=None, probes=()):
  """confirm(witness dict name->float32 bits or floats) -> (bool reproduced, detail).
  Records an obligation in `run`; returns Verdict(kind in equal/different/inconclusive)."""
  t0 = time.time()
  ob = solve.Obligation("%s_%s" % (run.prop, oid), "", meta=meta, solver="equiv")
  run.obls.append(ob)
  if structural(outsA, outsB):
    ob.result = solve.Result("unsat", {}, 0.0, "hash-consing")
    ob.smt = "(structural) output terms identical"
    return Verdict("equal", "hash-consing")
  # cheapest member of the portfolio: a handful of concrete probe inputs (only ever used to *find* a difference)
  for w in probes:
    ok, detail = confirm(w)
    if ok:
      ob.result = solve.Result("sat", {}, time.time() - t0, "probe+replay")
      ob.smt = "(concrete probe) witness %r" % (w,)
      return Verdict("different", "probe", time.time() - t0, w, detail)
  if relax:
    try:
      w = relaxation_witness(builder, outsA, outsB, inputs, **(relax_kw or {}))
    except Exception as e:  # pylint: disable=broad-except
      w = None
      meta["relaxation_error"] = repr(e)[:200]
    if w is not None:
      ok, detail = confirm(w)
      if ok:
        ob.result = solve.Result("sat", {}, time.time() - t0, "z3-real-relaxation+replay")
        ob.smt = "(z3 real relaxation) witness %r" % (w,)
        ob.expect = "unsat"
        return Verdict("different", "relaxation", time.time() - t0, w, detail)
  if not fp:
    ob.result = solve.Result("unknown", {}, time.time() - t0, "z3-real-relaxation")
    return Verdict("inconclusive", "relaxation found nothing and the exact miter was not requested", time.time() - t0)
  res, smt = fp_miter(builder, outsA, outsB, domain, oid, timeout=timeout)
  ob.smt = smt
  ob.result = res
  if res.verdict == "unsat":
    return Verdict("equal", "fp-miter", time.time() - t0)
  if res.verdict == "sat":
    w = {}
    for n in inputs:
      bits = res.model.get(n.attr + "_b")
      w[n.attr] = float(ir.bits_f32(bits)) if bits is not None else 0.0
    ok, detail = confirm(w)
    if ok:
      return Verdict("different", "fp-miter", time.time() - t0, w, detail)
    ob.result = solve.Result("unconfirmed", res.model, res.secs, res.solver)
    return Verdict("inconclusive", "miter counterexample does not reproduce: %s" % (detail,), time.time() - t0, w)
  return Verdict("inconclusive", "solver answered %s" % res.verdict, time.time() - t0)
