"""Configuration lattices and the *declared* fixed-point formats (harness-side specification,
derived from the constructor arguments only - never from the code under test)."""
import itertools
import math
import random
from fractions import Fraction


def is_po2(v):
  return v > 0 and math.log2(v) == int(math.log2(v))


def fixed_format(cls, kw):
  """Returns dict(step=Fraction, lo=int, hi=int, sign_mode=bool, scale=Fraction) or None when the
  configuration has no fixed-point format in the sense of C01 (non-po2 constant scale...)."""
  bits = kw.get("bits", 8)
  integer = kw.get("integer", 0)
  alpha = kw.get("alpha", None)
  if isinstance(alpha, str):
    return None
  a = Fraction(1) if alpha is None else Fraction(alpha)
  if not is_po2(a):
    return None
  two = Fraction(2)
  if cls in ("quantized_bits", "quantized_linear"):
    kn = 1 if kw.get("keep_negative", True) else 0
    sym = 1 if kw.get("symmetric", 0 if cls == "quantized_bits" else 1) else 0
    ub = bits - kn
    if ub == 0:
      # one-bit signed: the two values +-1 (quantized_bits) / +-2^(integer-1) (quantized_linear)
      if cls == "quantized_bits":
        return dict(step=a, lo=-1, hi=1, only=(-1, 1), surrogate="linear")
      return dict(step=a * two ** (integer - 1), lo=-1, hi=1, only=(-1, 1), surrogate="linear")
    step = a * two ** (integer - ub)
    return dict(step=step, lo=kn * (-(2 ** ub) + sym), hi=2 ** ub - 1, surrogate="linear")
  if cls == "quantized_relu":
    slope = Fraction(kw.get("negative_slope", 0.0))
    nsb = bits - (1 if slope != 0 else 0)
    step = two ** (integer - nsb)
    lo = -int(slope * 2 ** nsb)
    hi = 2 ** nsb - 1
    if slope != 0 and slope * 2 ** nsb < 1:
      return None
    ub = kw.get("relu_upper_bound")
    if ub is not None and not kw.get("is_quantized_clip", True):
      if (Fraction(ub) / step).denominator != 1:
        return None
      hi = min(hi, int(Fraction(ub) / step))
    return dict(step=step, lo=lo, hi=hi, surrogate="relu")
  if cls == "quantized_tanh":
    sym = 1 if kw.get("symmetric", False) else 0
    return dict(step=two ** -(bits - 1), lo=-(2 ** (bits - 1)) + sym, hi=2 ** (bits - 1) - 1, surrogate="tanh")
  if cls == "quantized_sigmoid":
    sym = 1 if kw.get("symmetric", False) else 0
    return dict(step=two ** -bits, lo=sym, hi=2 ** bits - 1, surrogate="sigmoid")
  return None


def _ok_bits(bits, integer, kn):
  return integer <= bits - kn


def fixed_lattice(tier, seed, classes=None, stochastic=False):
  """list of (cls, kwargs).  quick: a fixed core touching every class and flag + seed-rotated extras."""
  full = []
  for bits, integer, kn, sym, alpha in itertools.product((1, 2, 3, 4, 6, 8), (0, 1, 2, 3), (True, False), (0, 1), (None, 0.5, 2.0)):
    if not _ok_bits(bits, integer, 1 if kn else 0):
      continue
    kw = dict(bits=bits, integer=integer, symmetric=sym, keep_negative=kn)
    if alpha is not None:
      kw["alpha"] = alpha
    full.append(("quantized_bits", kw))
    full.append(("quantized_linear", dict(kw)))
  for bits, integer, slope, sig, ubs in itertools.product((2, 3, 4, 6, 8), (0, 1, 2, 3), (0.0, 0.5, 0.25, 0.125), (0, 1), (0, 1, 2)):
    if integer > bits:
      continue
    if sig and slope not in (0.0, 0.25):
      continue
    kw = dict(bits=bits, integer=integer)
    if slope:
      kw["negative_slope"] = slope
    if sig:
      kw["use_sigmoid"] = 1
    if ubs == 1:
      kw["is_quantized_clip"] = False
    elif ubs == 2:
      kw["is_quantized_clip"] = False
      kw["relu_upper_bound"] = 2.0 ** integer / 2
    if fixed_format("quantized_relu", kw) is None:
      continue
    full.append(("quantized_relu", kw))
  for bits, sym, real in itertools.product((2, 3, 4, 6, 8), (False, True), (False, True)):
    full.append(("quantized_tanh", dict(bits=bits, symmetric=sym, use_real_tanh=real)))
    full.append(("quantized_sigmoid", dict(bits=bits, symmetric=sym, use_real_sigmoid=real)))
  if classes:
    full = [c for c in full if c[0] in classes]
  if tier == "thorough":
    return full
  core = [
      ("quantized_bits", dict(bits=8, integer=3, symmetric=0, keep_negative=True)),
      ("quantized_bits", dict(bits=4, integer=0, symmetric=1, keep_negative=True)),
      ("quantized_bits", dict(bits=4, integer=1, symmetric=0, keep_negative=False)),
      ("quantized_bits", dict(bits=1, integer=0, symmetric=0, keep_negative=True)),
      ("quantized_bits", dict(bits=1, integer=0, symmetric=0, keep_negative=False)),
      ("quantized_bits", dict(bits=1, integer=1, symmetric=1, keep_negative=False)),
      ("quantized_bits", dict(bits=2, integer=1, symmetric=1, keep_negative=True)),
      ("quantized_bits", dict(bits=3, integer=2, symmetric=1, keep_negative=True, alpha=0.5)),
      ("quantized_bits", dict(bits=6, integer=1, symmetric=0, keep_negative=True, alpha=2.0)),
      ("quantized_linear", dict(bits=8, integer=3, symmetric=1, keep_negative=True)),
      ("quantized_linear", dict(bits=4, integer=0, symmetric=0, keep_negative=True)),
      ("quantized_linear", dict(bits=3, integer=1, symmetric=1, keep_negative=False)),
      ("quantized_linear", dict(bits=1, integer=0, symmetric=1, keep_negative=True)),
      ("quantized_linear", dict(bits=1, integer=1, symmetric=0, keep_negative=False)),
      ("quantized_linear", dict(bits=4, integer=2, symmetric=0, keep_negative=True, alpha=0.5)),
      ("quantized_relu", dict(bits=8, integer=3)),
      ("quantized_relu", dict(bits=4, integer=1, negative_slope=0.25)),
      ("quantized_relu", dict(bits=2, integer=0, negative_slope=0.5)),
      ("quantized_relu", dict(bits=4, integer=2, negative_slope=0.125)),
      ("quantized_relu", dict(bits=4, integer=0, use_sigmoid=1)),
      ("quantized_relu", dict(bits=6, integer=2, use_sigmoid=1, negative_slope=0.25)),
      ("quantized_relu", dict(bits=4, integer=2, is_quantized_clip=False)),
      ("quantized_relu", dict(bits=4, integer=2, is_quantized_clip=False, relu_upper_bound=2.0)),
      ("quantized_tanh", dict(bits=4, symmetric=False, use_real_tanh=False)),
      ("quantized_tanh", dict(bits=8, symmetric=True, use_real_tanh=False)),
      ("quantized_tanh", dict(bits=3, symmetric=False, use_real_tanh=True)),
      ("quantized_sigmoid", dict(bits=4, symmetric=False, use_real_sigmoid=False)),
      ("quantized_sigmoid", dict(bits=6, symmetric=True, use_real_sigmoid=False)),
      ("quantized_sigmoid", dict(bits=3, symmetric=False, use_real_sigmoid=True)),
  ]
  if classes:
    core = [c for c in core if c[0] in classes]
  rng = random.Random(seed)
  rest = [c for c in full if c not in core]
  rng.shuffle(rest)
  return core + rest[:8]
