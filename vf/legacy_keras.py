"""Environment stubs for the legacy (tf.keras 2.x) object API that qkeras.qtools / qkeras.utils still call and the pinned
Keras 3 no longer offers.  Each stub reproduces the documented legacy behaviour of one attribute; none touches qkeras.

  KerasTensor.ref()            hashable reference to the tensor (legacy: Tensor.ref()), with .deref()
  KerasTensor.get_shape()      the static shape with .as_list()
  Layer.output_shape           static output shape (a list of shapes for InputLayer, as in legacy Keras)
  Layer.input_shape            static input shape  (same convention)
  Layer.get_output_at(i) / get_input_at(i)   the layer's output / input tensor (single-node layers only)
  Variable.get_shape()         the variable's static shape with .as_list() (legacy layer weights were tf.Variables)

install() is idempotent and only adds attributes that are missing.
"""


_SEQ = [0]


class _Ref(object):
  """hashable reference to a tensor.  The hash is the order of first use (not the object address), so that sets and dictionaries
  of references - which qgraph iterates - have the same order on every run"""

  def __init__(self, t):
    self._t = t
    if not hasattr(t, "_vf_ref_seq"):
      _SEQ[0] += 1
      try:
        t._vf_ref_seq = _SEQ[0]
      except Exception:  # pylint: disable=broad-except
        pass

  def __hash__(self):
    return getattr(self._t, "_vf_ref_seq", id(self._t))

  def __eq__(self, other):
    return isinstance(other, _Ref) and other._t is self._t

  def deref(self):
    return self._t


class _Shape(tuple):
  def as_list(self):
    return list(self)


def _shape_of(t):
  if isinstance(t, (list, tuple)):
    return [tuple(x.shape) for x in t]
  return tuple(t.shape)


def install():
  import tensorflow.keras as keras
  from keras.src.backend.common.keras_tensor import KerasTensor
  added = []
  if not hasattr(KerasTensor, "ref"):
    KerasTensor.ref = lambda self: _Ref(self)
    added.append("KerasTensor.ref")
  if not hasattr(KerasTensor, "get_shape"):
    KerasTensor.get_shape = lambda self: _Shape(self.shape)
    added.append("KerasTensor.get_shape")
  L = keras.layers.Layer
  is_input = lambda self: type(self).__name__ == "InputLayer"
  if not hasattr(L, "output_shape"):
    L.output_shape = property(lambda self: [_shape_of(self.output)] if is_input(self) else _shape_of(self.output))
    added.append("Layer.output_shape")
  if not hasattr(L, "input_shape"):
    L.input_shape = property(lambda self: [_shape_of(self.output)] if is_input(self) else _shape_of(self.input))
    added.append("Layer.input_shape")
  if not hasattr(L, "get_output_at"):
    L.get_output_at = lambda self, i: self.output
    added.append("Layer.get_output_at")
  if not hasattr(L, "get_input_at"):
    L.get_input_at = lambda self, i: self.input
    added.append("Layer.get_input_at")
  try:
    from keras.src.backend.common.variables import Variable as KVar
    if not hasattr(KVar, "get_shape"):
      KVar.get_shape = lambda self: _Shape(self.shape)
      added.append("Variable.get_shape")
  except Exception:  # pylint: disable=broad-except
    pass
  return added
