"""Scalar term IR shared by all engines.

Terms are hash-consed DAG nodes over two sorts: F (IEEE binary32) and B (bool).
A graph of TensorFlow ops is interpreted by vf.tfg into numpy object arrays of
these nodes; the emitters below turn a set of root nodes into

  * SMT-LIB 2 text in QF_BVFP with the platform model measured on the pinned
    TensorFlow build (flush-to-zero on arithmetic results, denormals-are-zero on
    arithmetic operands, round-half-even tf.round, sign(+-0)=+0),
  * z3 Real expressions (a relaxation that is only ever used to *propose*
    counterexamples, never to prove anything), and
  * concrete float32 values (numpy), used to validate the translation against
    the real kernels on every run.

Transcendental kernels are contract stubs (free variable + side conditions).
Nothing in here knows about qkeras.
"""
import math
import struct
import numpy as np

FPS = "(_ FloatingPoint 8 24)"
PZ = "(_ +zero 8 24)"
NZ = "(_ -zero 8 24)"
NAN = "(_ NaN 8 24)"
PINF = "(_ +oo 8 24)"


def f32_bits(v):
  return struct.unpack("<I", struct.pack("<f", float(np.float32(v))))[0]


def bits_f32(b):
  return np.float32(struct.unpack("<f", struct.pack("<I", b & 0xFFFFFFFF))[0])


def fp_lit(v):
  return "((_ to_fp 8 24) #x%08x)" % f32_bits(v)


def f32_down(v):
  """largest float32 <= v (v python float)"""
  f = np.float32(v)
  if float(f) > v:
    f = np.nextafter(f, np.float32(-np.inf), dtype=np.float32)
  return f


def f32_up(v):
  f = np.float32(v)
  if float(f) < v:
    f = np.nextafter(f, np.float32(np.inf), dtype=np.float32)
  return f


class Node(object):
  __slots__ = ("op", "args", "attr", "sort", "nid", "nosub")

  def __repr__(self):
    return "<%s#%d%s>" % (self.op, self.nid, "" if self.attr is None else " %r" % (self.attr,))


class L(object):
  """Lazy SMT-LIB assertion text referring to nodes: L("(fp.leq {0} {1})", a, b)."""

  def __init__(self, fmt, *nodes):
    self.fmt, self.nodes = fmt, nodes

  def flat_nodes(self):
    out = []
    for n in self.nodes:
      if isinstance(n, Node):
        out.append(n)
      elif isinstance(n, L):
        out.extend(n.flat_nodes())
    return out

  def resolve(self, em):
    return self.fmt.format(*[em.name(n) if isinstance(n, Node) else n.resolve(em) if isinstance(n, L) else n for n in self.nodes])


class Builder(object):
  """Hash-consing factory.  One Builder = one namespace of SMT symbols."""

  def __init__(self):
    self.table = {}
    self.nodes = []
    self.inputs = []      # bit-vector backed F inputs, in creation order
    self.free = []        # free variables introduced by stubs
    self.side = []        # side conditions constraining stubs: list of L
    self.stubs = []       # dicts: kind, arg(s), res, origin
    self.counter = 0
    self.stub_memo = {}
    self.zero = self.const(0.0)   # nid 0 == +0.0 (used as padding id)

  # -- construction -------------------------------------------------------
  def mk(self, op, args=(), attr=None, sort="F", nosub=False):
    key = (op, tuple(a.nid for a in args), attr)
    n = self.table.get(key)
    if n is not None:
      return n
    n = Node()
    n.op, n.args, n.attr, n.sort, n.nosub = op, tuple(args), attr, sort, nosub
    n.nid = len(self.nodes)
    self.nodes.append(n)
    self.table[key] = n
    return n

  def const(self, v):
    if isinstance(v, (bool, np.bool_)):
      return self.mk("bconst", (), bool(v), "B")
    b = f32_bits(v)
    sub = (b & 0x7F800000) == 0 and (b & 0x007FFFFF) != 0
    return self.mk("fconst", (), b, "F", nosub=not sub)

  def input(self, name):
    n = self.mk("input", (), name, "F", nosub=True)
    if n not in self.inputs:
      self.inputs.append(n)
    return n

  def freevar(self, hint, sort="F", nosub=False):
    self.counter += 1
    n = self.mk("free", (), "%s_%d" % (hint, self.counter), sort, nosub)
    self.free.append(n)
    return n

  @staticmethod
  def is_const(n):
    return n.op in ("fconst", "bconst")

  @staticmethod
  def cval(n):
    return bits_f32(n.attr) if n.op == "fconst" else n.attr

  # arithmetic -------------------------------------------------------------
  def add(self, a, b): return self.mk("add", (a, b), None, "F", True)
  def sub(self, a, b): return self.mk("sub", (a, b), None, "F", True)
  def mul(self, a, b):
    of = getattr(self, "opaque_factors", None)
    if of:
      if a.nid in of:
        return self.opaque_mul(a, b)
      if b.nid in of:
        return self.opaque_mul(b, a)
    return self.mk("mul", (a, b), None, "F", True)

  def opaque_mul(self, g, a):
    """g*a for a designated symbolic factor g (e.g. qnoise_factor): the 24x24-bit multiplier is not bit-blasted; the
    product is a fresh value constrained by facts that hold for every IEEE multiplication with RNE and flushing:
    g=0 -> +-0, g=1 -> a, 0<=g<=1 -> between 0 and a.  Applications with equal arguments are equal (congruence)."""
    key = ("opmul", g.nid, a.nid)
    if key in self.stub_memo:
      return self.stub_memo[key]
    r = self.freevar("opmul", nosub=True)
    self.stub_memo[key] = r
    self.stubs.append(dict(kind="opmul", arg=a, arg2=g, res=r, origin=None))
    fin = "(and (not (fp.isNaN {1})) (not (fp.isInfinite {1})) (not (fp.isNaN {0})) (not (fp.isInfinite {0})))"
    self.side.append(L("(=> (and " + fin + " (fp.isZero {0})) (fp.isZero {2}))", g, a, r))
    self.side.append(L("(=> (and " + fin + " (fp.eq {0} %s)) (fp.eq {2} {1}))" % fp_lit(1.0), g, a, r))
    self.side.append(L("(=> (and " + fin + " (fp.leq %s {0}) (fp.leq {0} %s)) (and (=> (fp.geq {1} %s) (and (fp.leq %s {2}) (fp.leq {2} {1})))"
                       " (=> (fp.leq {1} %s) (and (fp.leq {1} {2}) (fp.leq {2} %s)))))" % (PZ, fp_lit(1.0), PZ, PZ, PZ, PZ), g, a, r))
    self.side.append(L("(=> (or (fp.isNaN {0}) (fp.isNaN {1})) (fp.isNaN {2}))", g, a, r))
    self.side.append(L("(not (fp.isSubnormal {0}))", r))
    return r
  def div(self, a, b): return self.mk("div", (a, b), None, "F", True)
  def neg(self, a): return self.mk("neg", (a,), None, "F", a.nosub)
  def abs(self, a): return self.mk("abs", (a,), None, "F", a.nosub)
  def round(self, a): return self.mk("round", (a,), None, "F", True)
  def floor(self, a): return self.mk("floor", (a,), None, "F", True)
  def ceil(self, a): return self.mk("ceil", (a,), None, "F", True)
  def trunc(self, a): return self.mk("trunc", (a,), None, "F", True)
  def sqrt(self, a): return self.mk("sqrt", (a,), None, "F", True)
  def rsqrt(self, a):
    """reciprocal square root: an uninterpreted (hash-consed) application - equal arguments give the identical term; only the
    real relaxation gives it meaning (r > 0, r*r*a = 1).  It has no exact floating-point encoding here."""
    return self.mk("rsqrt", (a,), None, "F", True)
  def uf(self, tag, index, args):
    """element `index` of an uninterpreted tensor function `tag` applied to the tensor with elements `args` (real relaxation only)"""
    return self.mk("uf", tuple(args), (tag, int(index)), "F", True)
  def fmax(self, a, b): return self.mk("max", (a, b), None, "F", a.nosub and b.nosub)
  def fmin(self, a, b): return self.mk("min", (a, b), None, "F", a.nosub and b.nosub)
  def sign(self, a): return self.mk("sign", (a,), None, "F", True)

  def ite(self, c, a, b):
    if a is b:
      return a
    if c.op == "bconst":
      return a if c.attr else b
    return self.mk("ite", (c, a, b), None, a.sort, a.nosub and b.nosub)

  def cmp(self, op, a, b): return self.mk(op, (a, b), None, "B")
  def b_and(self, *a):
    if any(x.op == "bconst" and not x.attr for x in a):
      return self.const(False)
    a = tuple(x for x in a if x.op != "bconst")
    if not a:
      return self.const(True)
    return self.mk("and", a, None, "B") if len(a) > 1 else a[0]

  def b_or(self, *a):
    if any(x.op == "bconst" and x.attr for x in a):
      return self.const(True)
    a = tuple(x for x in a if x.op != "bconst")
    if not a:
      return self.const(False)
    return self.mk("or", a, None, "B") if len(a) > 1 else a[0]

  def b_not(self, a):
    if a.op == "bconst":
      return self.const(not a.attr)
    return self.mk("not", (a,), None, "B")
  def b2f(self, a): return self.ite(a, self.const(1.0), self.const(0.0))

  def nsum(self, terms):
    """left-to-right float sum of a list of nodes"""
    acc = terms[0]
    for t in terms[1:]:
      acc = self.add(acc, t)
    return acc

  # opaque linear / bilinear operator application (engine C) ---------------
  def lin(self, tag, pairs):
    """sum over pairs (coef_or_node, node); order-insensitive, opaque in FP."""
    key = tuple(sorted((a.nid, b.nid) for a, b in pairs))
    flat = []
    for a, b in sorted(pairs, key=lambda p: (p[0].nid, p[1].nid)):
      flat.extend((a, b))
    return self.mk("lin", tuple(flat), tag, "F", True)

  # contract stubs ---------------------------------------------------------
  def log(self, a, origin=None):
    if ("log", a.nid) in self.stub_memo:
      return self.stub_memo[("log", a.nid)]
    r = self.freevar("log")
    self.stub_memo[("log", a.nid)] = r
    ab = "%s_ab" % r.attr
    self.stubs.append(dict(kind="log", arg=a, res=r, origin=origin, aux=ab))
    self.side.append(L("(= ((_ to_fp 8 24) {1}) {0})", a, ab, r))   # r only marks ownership
    e = "((_ extract 30 23) %s)" % ab
    m = "((_ extract 22 0) %s)" % ab
    cond = "(and (fp.isNormal {0}) (fp.isPositive {0}))"
    if getattr(self, "log_mode", "arith") == "table":
      f = lambda name: "(%s %s)" % (name, e)
    else:
      # arithmetic form: k*ln2 computed in floating point from the exponent field (outward slack covers its rounding)
      kf = "((_ to_fp 8 24) RNE (bvsub ((_ zero_extend 2) %s) #b0001111111))" % e
      ln2 = fp_lit(math.log(2.0))
      S = fp_lit(LOG_SLACK)
      kl = "(fp.mul RNE %s %s)" % (kf, ln2)
      k1 = "(fp.mul RNE (fp.add RNE %s %s) %s)" % (kf, fp_lit(1.0), ln2)
      kh = "(fp.mul RNE (fp.add RNE %s %s) %s)" % (kf, fp_lit(0.5), ln2)
      tab = {"vf_log_lo": "(fp.sub RNE %s %s)" % (kl, S), "vf_log_hi": "(fp.add RNE %s %s)" % (k1, S),
             "vf_log_mid_hi": "(fp.sub RNE %s %s)" % (kh, S), "vf_log_mid_lo": "(fp.add RNE %s %s)" % (kh, S),
             "vf_log_in_lo": "(fp.add RNE %s %s)" % (kl, S), "vf_log_in_hi": "(fp.sub RNE %s %s)" % (k1, S)}
      f = lambda name: tab[name]
    self.side.append(L("(=> " + cond + " (and (fp.leq " + f("vf_log_lo") + " {1}) (fp.leq {1} " + f("vf_log_hi") + ")"
                       " (=> (bvult " + m + " #b%s) (fp.leq {1} " % format(SQRT2_MAN - LOG_WIN, "023b") + f("vf_log_mid_hi") + "))"
                       " (=> (bvugt " + m + " #b%s) (fp.geq {1} " % format(SQRT2_MAN + LOG_WIN, "023b") + f("vf_log_mid_lo") + "))"
                       " (=> (bvugt " + m + " #b%s) (fp.geq {1} " % format(LOG_WIN, "023b") + f("vf_log_in_lo") + "))"
                       " (=> (bvult " + m + " #b%s) (fp.leq {1} " % format((1 << 23) - 2 * LOG_WIN, "023b") + f("vf_log_in_hi") + "))))", a, r))
    # log(0) = -inf, log(+inf)=+inf, log(negative)=NaN on the real kernel (validated)
    self.side.append(L("(=> (fp.isZero {0}) (and (fp.isInfinite {1}) (fp.isNegative {1})))", a, r))
    self.side.append(L("(=> (= {0} %s) (= {1} %s))" % (PINF, PINF), a, r))
    self.side.append(L("(=> (or (fp.isNaN {0}) (and (fp.isNegative {0}) (not (fp.isZero {0})))) (fp.isNaN {1}))", a, r))
    return r

  def pow2(self, e, origin=None):
    if ("pow2", e.nid) in self.stub_memo:
      return self.stub_memo[("pow2", e.nid)]
    r = self.freevar("pow2", nosub=True)
    self.stub_memo[("pow2", e.nid)] = r
    self.stubs.append(dict(kind="pow2", arg=e, res=r, origin=origin))
    ei = "((_ fp.to_sbv 12) RTZ {0})"
    exact = "((_ to_fp 8 24) (concat #b0 ((_ extract 7 0) (bvadd " + ei + " #x07f)) #b00000000000000000000000))"
    isint = "(fp.eq (fp.roundToIntegral RTZ {0}) {0})"
    self.side.append(L("(=> (and " + isint + " (fp.geq {0} %s) (fp.leq {0} %s)) (= {1} " % (fp_lit(-126), fp_lit(127)) + exact + "))", e, r))
    self.side.append(L("(=> (and " + isint + " (fp.lt {0} %s)) (= {1} %s))" % (fp_lit(-126), PZ), e, r))
    self.side.append(L("(=> (and " + isint + " (fp.gt {0} %s)) (= {1} %s))" % (fp_lit(127), PINF), e, r))
    self.side.append(L("(=> (fp.isNaN {0}) (fp.isNaN {1}))", e, r))
    self.side.append(L("(not (fp.isSubnormal {0}))", r))
    return r

  def bounded(self, kind, a, lo, hi, origin=None):
    """tanh / sigmoid: value in [lo, hi], NaN iff argument NaN; monotone pairs added by close_stubs()."""
    if (kind, a.nid) in self.stub_memo:
      return self.stub_memo[(kind, a.nid)]
    r = self.freevar(kind)
    self.stub_memo[(kind, a.nid)] = r
    self.stubs.append(dict(kind=kind, arg=a, res=r, origin=origin))
    self.side.append(L("(=> (not (fp.isNaN {0})) (and (fp.leq %s {1}) (fp.leq {1} %s)))" % (fp_lit(lo), fp_lit(hi)), a, r))
    self.side.append(L("(=> (fp.isNaN {0}) (fp.isNaN {1}))", a, r))
    if kind == "tanh":
      self.side.append(L("(=> (fp.gt {0} %s) (fp.geq {1} %s))" % (PZ, PZ), a, r))
      self.side.append(L("(=> (fp.lt {0} %s) (fp.leq {1} %s))" % (PZ, PZ), a, r))
      self.side.append(L("(=> (fp.isZero {0}) (fp.isZero {1}))", a, r))
      self.side.append(L("(=> (not (fp.isNaN {0})) (fp.leq (fp.abs {1}) (fp.abs {0})))", a, r))
    return r

  def uniform(self, origin=None):
    # draws are shared between traces of the same builder when the producing op has the same name and position
    if origin is not None and ("uniform", origin) in self.stub_memo:
      return self.stub_memo[("uniform", origin)]
    r = self.freevar("rnd", nosub=True)
    if origin is not None:
      self.stub_memo[("uniform", origin)] = r
    self.stubs.append(dict(kind="uniform", arg=None, res=r, origin=origin))
    self.side.append(L("(and (fp.leq %s {0}) (fp.lt {0} %s) (not (fp.isSubnormal {0})) (fp.isPositive {0}))" % (PZ, fp_lit(1.0)), r))
    return r

  def close_stubs(self):
    """functional consistency between stubs of the same kind (idempotent).  NOTE: no monotonicity axiom -
    tf.math.log / tanh / sigmoid on the pinned build are measurably *not* monotone at the ulp level
    (validated: see qz.validate_log_contract), so only determinism is assumed."""
    done = getattr(self, "_closed", set())
    self._closed = done
    for kind in ("log", "tanh", "sigmoid", "pow2", "opmul"):
      ss = [s for s in self.stubs if s["kind"] == kind]
      for i in range(len(ss)):
        for j in range(i + 1, len(ss)):
          a, b = ss[i], ss[j]
          if (a["res"].nid, b["res"].nid) in done:
            continue
          done.add((a["res"].nid, b["res"].nid))
          if kind == "opmul":
            self.side.append(L("(=> (and (fp.eq {0} {1}) (fp.eq {4} {5})) (fp.eq {2} {3}))", a["arg"], b["arg"], a["res"], b["res"], a["arg2"], b["arg2"]))
          else:
            self.side.append(L("(=> (= {0} {1}) (= {2} {3}))", a["arg"], b["arg"], a["res"], b["res"]))


# --- log contract tables -----------------------------------------------------
SQRT2_MAN = 0x3504F3
LOG_WIN = 0x400          # +-2^-13 relative tie window around sqrt(2)
LOG_SLACK = 4e-5


def log_tables_smt():
  """define-funs vf_log_lo/hi/mid_lo/mid_hi : (BitVec 8) -> F, outward-rounded."""
  ln2 = math.log(2.0)
  out = []
  for name, fn, rnd in (("vf_log_lo", lambda k: k * ln2 - LOG_SLACK, f32_down),
                        ("vf_log_hi", lambda k: (k + 1) * ln2 + LOG_SLACK, f32_up),
                        ("vf_log_mid_hi", lambda k: (k + 0.5) * ln2 - LOG_SLACK, f32_up),
                        ("vf_log_mid_lo", lambda k: (k + 0.5) * ln2 + LOG_SLACK, f32_down),
                        ("vf_log_in_lo", lambda k: k * ln2 + LOG_SLACK, f32_down),
                        ("vf_log_in_hi", lambda k: (k + 1) * ln2 - LOG_SLACK, f32_up)):
    body = fp_lit(rnd(fn(127)))
    for E in range(253, 0, -1):
      body = "(ite (= e #x%02x) %s %s)" % (E, fp_lit(rnd(fn(E - 127))), body)
    out.append("(define-fun %s ((e (_ BitVec 8))) %s %s)" % (name, FPS, body))
  return out


# ---------------------------------------------------------------------------
# SMT-LIB (QF_BVFP) emitter
# ---------------------------------------------------------------------------
class FPEmitter(object):
  """Emits define-funs for every node reachable from the requested roots."""

  def __init__(self, builder, prefix="n"):
    self.b = builder
    self.prefix = prefix
    self.done = {}
    self.lines = []
    self.decls = []
    self.uses_log = False

  def name(self, n):
    r = self.done.get(n.nid)
    if r is None:
      r = self._emit(n)
    return r

  def _daz(self, n):
    nm = self.done[n.nid]
    if n.nosub:
      return nm
    return "(ite (fp.isSubnormal %s) (ite (fp.isNegative %s) %s %s) %s)" % (nm, nm, NZ, PZ, nm)

  def _define(self, n, body):
    nm = "%s%d" % (self.prefix, n.nid)
    self.lines.append("(define-fun %s () %s %s)" % (nm, FPS if n.sort == "F" else "Bool", body))
    self.done[n.nid] = nm

  def _ftz(self, n, body):
    raw = "%s%dr" % (self.prefix, n.nid)
    self.lines.append("(define-fun %s () %s %s)" % (raw, FPS, body))
    self._define(n, "(ite (fp.isSubnormal %s) (ite (fp.isNegative %s) %s %s) %s)" % (raw, raw, NZ, PZ, raw))

  def _emit(self, n):
    stack = [(n, False)]
    while stack:
      cur, expanded = stack.pop()
      if cur.nid in self.done:
        continue
      if not expanded:
        stack.append((cur, True))
        for a in cur.args:
          if a.nid not in self.done:
            stack.append((a, False))
        continue
      self._emit1(cur)
    return self.done[n.nid]

  def _emit1(self, n):
    op = n.op
    A = [self.done[a.nid] for a in n.args]
    if op == "fconst":
      self.done[n.nid] = "((_ to_fp 8 24) #x%08x)" % n.attr
    elif op == "bconst":
      self.done[n.nid] = "true" if n.attr else "false"
    elif op == "input":
      self.decls.append("(declare-const %s_b (_ BitVec 32))" % n.attr)
      self.decls.append("(define-fun %s () %s ((_ to_fp 8 24) %s_b))" % (n.attr, FPS, n.attr))
      self.done[n.nid] = n.attr
    elif op == "free":
      self.decls.append("(declare-const %s %s)" % (n.attr, FPS if n.sort == "F" else "Bool"))
      for s in self.b.stubs:
        if s["res"] is n and s["kind"] == "log":
          self.decls.append("(declare-const %s (_ BitVec 32))" % s["aux"])
          self.uses_log = True
      self.done[n.nid] = n.attr
    elif op in ("add", "sub", "mul", "div"):
      self._ftz(n, "(fp.%s RNE %s %s)" % (op, self._daz(n.args[0]), self._daz(n.args[1])))
    elif op == "sqrt":
      self._ftz(n, "(fp.sqrt RNE %s)" % self._daz(n.args[0]))
    elif op == "neg":
      self._define(n, "(fp.neg %s)" % A[0])
    elif op == "abs":
      self._define(n, "(fp.abs %s)" % A[0])
    elif op in ("round", "floor", "ceil", "trunc"):
      rm = {"round": "RNE", "floor": "RTN", "ceil": "RTP", "trunc": "RTZ"}[op]
      self._define(n, "(fp.roundToIntegral %s %s)" % (rm, self._daz(n.args[0])))
    elif op in ("max", "min"):
      self._define(n, "(ite (or (fp.isNaN %s) (fp.isNaN %s)) %s (fp.%s %s %s))" % (A[0], A[1], NAN, op, A[0], A[1]))
    elif op == "sign":
      a = self._daz(n.args[0])
      self._define(n, "(ite (fp.isNaN %s) %s (ite (fp.gt %s %s) %s (ite (fp.lt %s %s) %s %s)))" % (
          A[0], A[0], a, PZ, fp_lit(1.0), a, PZ, fp_lit(-1.0), PZ))
    elif op == "ite":
      self._define(n, "(ite %s %s %s)" % tuple(A))
    elif op in ("lt", "leq", "gt", "geq", "eq"):
      self._define(n, "(fp.%s %s %s)" % (op, self._daz(n.args[0]), self._daz(n.args[1])))
    elif op == "ne":
      self._define(n, "(not (fp.eq %s %s))" % (self._daz(n.args[0]), self._daz(n.args[1])))
    elif op in ("and", "or"):
      self._define(n, "(%s %s)" % (op, " ".join(A)))
    elif op == "not":
      self._define(n, "(not %s)" % A[0])
    elif op == "lin":
      # opaque: one free FP symbol per distinct structure
      nm = "%s%d" % (self.prefix, n.nid)
      self.decls.append("(declare-const %s %s)" % (nm, FPS))
      self.done[n.nid] = nm
    else:
      raise NotImplementedError("FP emit " + op)

  def text(self):
    return "\n".join(self.decls + self.lines)


def build_smt(builder, asserts, get_values=None, logic="QF_BVFP", extra_decls=(), side=True, cut=()):
  """asserts: list of (B Node | str | L).  Stub side conditions are added.
  cut: stub result nodes that are treated as free cut points - the side conditions that define them are NOT emitted
  (assume-guarantee decomposition: the caller asserts an invariant about them instead)."""
  cut_ids = set(n.nid for n in cut)
  em = FPEmitter(builder)
  strs = []
  for a in asserts:
    strs.append(em.name(a) if isinstance(a, Node) else a.resolve(em) if isinstance(a, L) else a)
  if side:
    # only side conditions all of whose stub variables are used by this problem;
    # resolving one may pull in further stubs, hence the fixpoint
    res_ids = set(st["res"].nid for st in builder.stubs)
    used = set()
    changed = True
    while changed:
      changed = False
      for k, sc in enumerate(builder.side):
        if k in used:
          continue
        owners = [n for n in sc.flat_nodes() if n.nid in res_ids]
        if any(o.nid in cut_ids for o in owners):
          used.add(k)
          continue
        if owners and all(o.nid in em.done for o in owners):
          used.add(k)
          strs.append(sc.resolve(em))
          changed = True
  txt = ["(set-option :produce-models true)", "(set-logic %s)" % logic]
  if em.uses_log:
    txt.extend(log_tables_smt())
  txt.extend(extra_decls)
  txt.append(em.text())
  txt.extend("(assert %s)" % s for s in strs)
  txt.append("(check-sat)")
  if get_values is None:
    get_values = [i.attr + "_b" for i in builder.inputs if i.nid in em.done]
  if get_values:
    txt.append("(get-value (%s))" % " ".join(get_values))
  return "\n".join(txt) + "\n"
