"""Solver back ends and the parallel obligation pool.

An obligation is SMT-LIB text whose (check-sat) answer decides it:
  unsat -> holds for every value inside the stated bound
  sat   -> counterexample (model values returned, to be replayed on the real code)
  anything else -> inconclusive (never success)
"""
import os
import re
import subprocess
import sys
import tempfile
import time
import hashlib
import concurrent.futures as cf

HERE = os.path.dirname(os.path.abspath(__file__))
ROOT = os.path.dirname(HERE)
WORK = os.environ.get("VERIF_WORK") or os.path.join(ROOT, ".work", "p%d" % os.getpid())
NPROC = int(os.environ.get("VERIF_JOBS", "0")) or min(16, os.cpu_count() or 4)

_CVC5RUN = os.path.join(HERE, "cvc5run.py")


def workdir():
  os.makedirs(WORK, exist_ok=True)
  return WORK


class Result(object):
  def __init__(self, verdict, model, secs, solver, raw=""):
    self.verdict, self.model, self.secs, self.solver, self.raw = verdict, model, secs, solver, raw

  def __repr__(self):
    return "Result(%s, %.1fs, %s)" % (self.verdict, self.secs, self.solver)


_VAL = re.compile(r"\(\s*([A-Za-z_][\w\.\|]*)\s+(#x[0-9a-fA-F]+|#b[01]+|true|false|\(- ?[\d\./ ]+\)|[\d\./]+|\(/ [^()]*(?:\([^()]*\))?[^()]*\)|\(fp [^()]*\)|\(_ [^()]*\))\s*\)")


def parse_model(out):
  m = {}
  for name, v in _VAL.findall(out):
    if v.startswith("#x"):
      m[name] = int(v[2:], 16)
    elif v.startswith("#b"):
      m[name] = int(v[2:], 2)
    elif v in ("true", "false"):
      m[name] = (v == "true")
    else:
      m[name] = v
  return m


def run_smt(text, solver="cvc5", timeout=600, tag="q", keep=False):
  """Run one query. solver in {cvc5 (wheel, via cvc5run.py), cvc5bin, z3, z3bin}."""
  d = workdir()
  h = hashlib.sha1(text.encode()).hexdigest()[:12]
  path = os.path.join(d, "%s_%s_%d.smt2" % (re.sub(r"\W+", "_", tag)[:60], h, os.getpid()))
  with open(path, "w") as f:
    f.write(text)
  if solver == "cvc5":
    cmd = [sys.executable, _CVC5RUN, path]
  elif solver == "cvc5bin":
    cmd = ["cvc5", "--produce-models", path]
  elif solver == "z3":
    cmd = ["z3-new", path]
  elif solver == "z3bin":
    cmd = ["z3", path]
  else:
    raise ValueError(solver)
  t = time.time()
  try:
    p = subprocess.run(cmd, capture_output=True, text=True, timeout=timeout)
    out = p.stdout + p.stderr
  except subprocess.TimeoutExpired:
    if not keep:
      _rm(path)
    return Result("timeout", {}, time.time() - t, solver)
  secs = time.time() - t
  first = ""
  for line in p.stdout.splitlines():
    line = line.strip()
    if line in ("sat", "unsat", "unknown"):
      first = line
      break
  errs = [l for l in out.splitlines() if "(error" in l and "annot get value" not in l and "model is not available" not in l]
  if errs or not first:
    verdict = "error"
  else:
    verdict = first
  model = parse_model(p.stdout) if verdict == "sat" else {}
  if not keep and verdict in ("sat", "unsat"):
    _rm(path)
  return Result(verdict, model, secs, solver, raw=out[-2000:] if verdict not in ("sat", "unsat") else "")


def _rm(p):
  try:
    os.remove(p)
  except OSError:
    pass


class Obligation(object):
  """One solver query plus the bookkeeping needed to report and replay it."""

  def __init__(self, oid, smt, expect="unsat", meta=None, solver="cvc5", timeout=600, twin=False, kind="obligation"):
    self.oid, self.smt, self.expect, self.meta = oid, smt, expect, meta or {}
    self.solver, self.timeout, self.twin, self.kind = solver, timeout, twin, kind
    self.result = None


def discharge(obls, jobs=None, progress=None):
  """Run all obligations on a pool; returns the list (results attached)."""
  jobs = jobs or NPROC
  # longest expected first is unknown; keep submission order
  with cf.ThreadPoolExecutor(max_workers=jobs) as ex:
    futs = {ex.submit(run_smt, o.smt, o.solver, o.timeout, o.oid): o for o in obls}
    for f in cf.as_completed(futs):
      o = futs[f]
      try:
        o.result = f.result()
      except Exception as e:  # pylint: disable=broad-except
        o.result = Result("error", {}, 0.0, o.solver, raw=repr(e))
      if progress:
        progress(o)
  return obls
