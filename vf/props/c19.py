"""C19 - qtools operation counts are the true MAC counts and energy totals add up (engine B)."""
import itertools
import numpy as np
import z3

from .. import harness, pysym
from ..pysym import SymInt, SymReal, lift

PROP = "C19"


def stub_class(name):
  """a stand-in layer whose class is *named* like the real one (get_operation_count only reads __class__.__name__,
  compute_output_shape, get_weights()[0].shape and pool_size)"""
  return type(name, (object,), {})


class W(object):
  def __init__(self, shape):
    self.shape = shape


def conv_out(n, k, s, d, same):
  """Keras output-length contract (symbolic): 'same' -> ceil(n/s); 'valid' -> ceil((n - d*(k-1)) / s)"""
  num = n if same else n - d * (k - 1)
  return (num + s - 1) / s        # z3 Int division (floor for positive operands)


def count_cases():
  n, m, k1, k2, s, d, ci, co = z3.Ints("H W kh kw stride dil cin cout")
  base = [n >= 4, n <= 12, m >= 4, m <= 12, k1 >= 1, k1 <= 5, k2 >= 1, k2 <= 5, s >= 1, s <= 3, d >= 1, d <= 2, ci >= 1, ci <= 8, co >= 1, co <= 8,
          n - d * (k1 - 1) >= 1, m - d * (k2 - 1) >= 1]
  S = SymInt
  cases = []
  for same in (False, True):
    ho, wo = conv_out(n, k1, s, d, same), conv_out(m, k2, s, d, same)
    for cname in ("Conv2D", "QConv2D"):
      L = stub_class(cname)()
      L.dilation_rate, L.strides, L.kernel_size, L.filters, L.padding, L.groups = (S(d), S(d)), (S(s), S(s)), (S(k1), S(k2)), S(co), "same" if same else "valid", 1
      L.compute_output_shape = lambda ish, ho=ho, wo=wo: (None, S(ho), S(wo), S(co))
      L.get_weights = lambda: [W((S(k1), S(k2), S(ci), S(co)))]
      cases.append((cname, same, L, (None, S(n), S(m), S(ci)), ho * wo * co * (k1 * k2 * ci), "output elements x (kh*kw*cin) taps"))
    for cname in ("DepthwiseConv2D", "QDepthwiseConv2D"):
      L = stub_class(cname)()
      L.dilation_rate, L.strides, L.kernel_size, L.depth_multiplier, L.padding = (S(d), S(d)), (S(s), S(s)), (S(k1), S(k2)), 1, "same" if same else "valid"
      L.compute_output_shape = lambda ish, ho=ho, wo=wo: (None, S(ho), S(wo), S(ci))
      L.get_weights = lambda: [W((S(k1), S(k2), S(ci), 1))]
      cases.append((cname, same, L, (None, S(n), S(m), S(ci)), ho * wo * ci * (k1 * k2), "output elements x (kh*kw) taps, depth multiplier 1"))
    to = conv_out(n, k1, s, d, same)
    for cname in ("Conv1D", "QConv1D"):
      L = stub_class(cname)()
      L.dilation_rate, L.strides, L.kernel_size, L.filters, L.padding = (S(d),), (S(s),), (S(k1),), S(co), "same" if same else "valid"
      L.compute_output_shape = lambda ish, to=to: (None, S(to), S(co))
      L.get_weights = lambda: [W((S(k1), S(ci), S(co)))]
      cases.append((cname, same, L, (None, S(n), S(ci)), to * co * (k1 * ci), "output elements x (k*cin) taps"))
    # average pooling (pool = stride = k): adds per output element = pool area
    po, qo = conv_out(n, k1, k1, 1, same), conv_out(m, k2, k2, 1, same)
    L = stub_class("AveragePooling2D")()
    L.pool_size, L.strides, L.padding = (S(k1), S(k2)), (S(k1), S(k2)), "same" if same else "valid"
    L.compute_output_shape = lambda ish, po=po, qo=qo: (None, S(po), S(qo), S(ci))
    cases.append(("AveragePooling2D", same, L, (None, S(n), S(m), S(ci)), po * qo * ci * (k1 * k2), "output elements x pool area"))
  for cname in ("Dense", "QDense"):
    L = stub_class(cname)()
    L.name, L.units, L.use_bias = "dense", S(co), True
    L.compute_output_shape = lambda ish: (None, S(co))
    cases.append((cname, None, L, (None, S(ci)), ci * co, "inputs x outputs"))
  for cname in ("GlobalAveragePooling2D", "QGlobalAveragePooling2D"):
    L = stub_class(cname)()
    L.compute_output_shape = lambda ish: (None, S(ci))
    cases.append((cname, None, L, (None, S(n), S(m), S(ci)), n * m * ci, "every input element is added once"))
  for cname in ("Add", "Multiply"):
    L = stub_class(cname)()
    cases.append((cname, None, L, [(None, S(n), S(m), S(ci)), (None, S(n), S(m), S(ci))], n * m * ci, "one operation per output element (two inputs)"))
  return base, cases


def counts(run):
  from qkeras.qtools import qtools_util
  import numpy as real_np
  base, cases = count_cases()
  for i, (cname, same, L, ishape, want, why) in enumerate(cases):
    def fn(L=L, ishape=ishape):
      return qtools_util.get_operation_count(L, ishape)
    try:
      with pysym.shadow(qtools_util):
        paths, limits = pysym.explore(fn, base=base)
    except Exception as e:  # pylint: disable=broad-except
      run.inconclusive_("symbolic execution of get_operation_count(%s) failed: %r" % (cname, e))
      continue
    for pc, w_ in limits:
      run.inconclusive_("path limit in get_operation_count(%s): %s" % (cname, w_))
    for pi, (pc, res, facts) in enumerate(paths):
      got = lift(res) if isinstance(res, (SymInt, SymReal)) else z3.IntVal(int(res))
      meta = dict(clause="operation_count", layer=cname, padding=("same" if same else "valid") if same is not None else None, oracle=why)
      v, model = harness.z3_query(run, "count_%02d_%s_p%d" % (i, cname, pi), list(pc), [got != want], meta)
      if model is not None:
        rep = dict(clause="operation_count", layer=cname, same=same, model=model)
        ok, detail = replay_count(rep)
        if ok:
          run.violation(dict(clause="operation_count", layer=cname), detail, rep)
        else:
          run.inconclusive_("counterexample for %s does not reproduce: %s" % (cname, detail))
    run.configs.append("count:%s:%s" % (cname, same))
  # the symbolic output-shape contract used above agrees with the real Keras layers on the corner geometries (concrete)
  try:
    import tensorflow.keras as keras
    nchk = 0
    for n, k, s, d, same in itertools.product((4, 7, 12), (1, 2, 3, 5), (1, 2, 3), (1, 2), (False, True)):
      if (s > 1 and d > 1) or n - d * (k - 1) < 1:
        continue
      lay = keras.layers.Conv2D(2, k, strides=s, dilation_rate=d, padding="same" if same else "valid")
      out = lay.compute_output_shape((None, n, n, 1))
      want = (n + s - 1) // s if same else (n - d * (k - 1) + s - 1) // s
      nchk += 1
      if out[1] != want:
        run.inconclusive_("output-shape contract differs from Keras for n=%d k=%d s=%d d=%d same=%s: %s vs %s" % (n, k, s, d, same, out[1], want))
    run.concrete_checks += nchk
    run.aux["shape_contract_points"] = nchk
  except Exception as e:  # pylint: disable=broad-except
    run.aux["shape_contract_points"] = "not run: %r" % (e,)


def replay_count(rep):
  """rebuild a concrete stub layer from the model and compare the real function's value with the loop-nest count"""
  from qkeras.qtools import qtools_util
  m = rep["model"]
  g = lambda k, d=1: m.get(k, d)
  n, w, k1, k2, s, d, ci, co = g("H", 4), g("W", 4), g("kh"), g("kw"), g("stride"), g("dil"), g("cin"), g("cout")
  same = rep["same"]
  co_ = lambda nn, kk, ss, dd: (nn + ss - 1) // ss if same else (nn - dd * (kk - 1) + ss - 1) // ss
  cname = rep["layer"]
  L = stub_class(cname)()
  L.name = cname
  if "Conv2D" in cname and "Depthwise" not in cname:
    ho, wo = co_(n, k1, s, d), co_(w, k2, s, d)
    L.dilation_rate, L.strides, L.kernel_size, L.filters, L.padding, L.groups = (d, d), (s, s), (k1, k2), co, "same" if same else "valid", 1
    L.compute_output_shape = lambda ish: (None, ho, wo, co)
    L.get_weights = lambda: [W((k1, k2, ci, co))]
    ish, want = (None, n, w, ci), ho * wo * co * k1 * k2 * ci
  elif "Depthwise" in cname:
    ho, wo = co_(n, k1, s, d), co_(w, k2, s, d)
    L.dilation_rate, L.strides, L.kernel_size, L.depth_multiplier, L.padding = (d, d), (s, s), (k1, k2), 1, "same" if same else "valid"
    L.compute_output_shape = lambda ish: (None, ho, wo, ci)
    L.get_weights = lambda: [W((k1, k2, ci, 1))]
    ish, want = (None, n, w, ci), ho * wo * ci * k1 * k2
  elif "Conv1D" in cname:
    to = co_(n, k1, s, d)
    L.dilation_rate, L.strides, L.kernel_size, L.filters, L.padding = (d,), (s,), (k1,), co, "same" if same else "valid"
    L.compute_output_shape = lambda ish: (None, to, co)
    L.get_weights = lambda: [W((k1, ci, co))]
    ish, want = (None, n, ci), to * co * k1 * ci
  elif cname == "AveragePooling2D":
    po, qo = co_(n, k1, k1, 1), co_(w, k2, k2, 1)
    L.pool_size = (k1, k2)
    L.compute_output_shape = lambda ish: (None, po, qo, ci)
    ish, want = (None, n, w, ci), po * qo * ci * k1 * k2
  elif "Dense" in cname:
    L.compute_output_shape = lambda ish: (None, co)
    ish, want = (None, ci), ci * co
  elif "GlobalAverage" in cname:
    L.compute_output_shape = lambda ish: (None, ci)
    ish, want = (None, n, w, ci), n * w * ci
  else:
    ish, want = [(None, n, w, ci), (None, n, w, ci)], n * w * ci
  got = qtools_util.get_operation_count(L, ish)
  return got != want, dict(layer=cname, geometry=dict(H=n, W=w, kh=k1, kw=k2, stride=s, dilation=d, cin=ci, cout=co, padding="same" if same else "valid"),
                           reported=int(got), loop_nest_count=int(want))


# ---- energy arithmetic --------------------------------------------------------------------------------------------------------
def energy(run):
  """extract_energy_sum / extract_energy_profile on a symbolic energy dictionary; memory energy functions non-negative"""
  from qkeras.qtools import run_qtools
  from qkeras.qtools.qenergy import qenergy
  QT = run_qtools.QTools
  names = ["l0", "l1", "l2"]
  classes = ["QConv2D", "QActivation", "Add"]
  vals = {n: {k: z3.Real("%s_%s" % (n, k)) for k in ("inputs", "outputs", "parameters", "op_cost")} for n in names}
  base = [v >= 0 for d in vals.values() for v in d.values()]
  ed = {n: {"class_name": c, "energy": {k: SymReal(v) for k, v in vals[n].items()}} for n, c in zip(names, classes)}
  ed["total_cost"] = 0
  settings = [{"default": ["inputs", "parameters", "op_cost"], "QActivation": ["outputs"], "Add": ["op_cost"]},
              {"default": ["op_cost"]}, {"QConv2D": ["inputs", "outputs"], "default": []},
              # a class listed with an empty selection counts nothing for that class (it must not fall back to the default)
              {"QActivation": [], "default": ["inputs", "parameters", "op_cost"]}]
  self_stub = QT.__new__(QT)
  for si, cfg in enumerate(settings):
    def fn(cfg=cfg):
      return QT.extract_energy_sum(self_stub, cfg, ed), QT.extract_energy_profile(self_stub, cfg, ed)
    with pysym.shadow(run_qtools, sum=lambda xs: _ssum(xs)):
      paths, limits = pysym.explore(fn, base=base)
    for pc, (tot, prof), facts in paths:
      want = z3.Sum([vals[n][k] for n, c in zip(names, classes) for k in cfg.get(c, cfg.get("default", []))] + [z3.RealVal(0)])
      tot_e = lift(tot)
      bad = [z3.Not(z3.And(z3.ToReal(tot_e) <= want, z3.ToReal(tot_e) > want - 1))] if not z3.is_real(tot_e) else [tot_e != want]
      for n, c in zip(names, classes):
        w_l = z3.Sum([vals[n][k] for k in cfg.get(c, cfg.get("default", []))] + [z3.RealVal(0)])
        t_l = prof[n]["total"]
        bad.append(lift(t_l) != w_l if isinstance(t_l, (SymReal, SymInt)) else z3.RealVal(float(t_l)) != w_l)
      v, model = harness.z3_query(run, "energy_sum_%d" % si, list(pc), [z3.Or(*bad)], dict(clause="energy_sum", setting=cfg))
      if model is not None:
        run.violation(dict(clause="energy_sum"), dict(setting=cfg, model=str(model)[:300]), dict(clause="energy_sum", setting=cfg))
    run.configs.append("energy_sum:%d" % si)
  # memory read/write energy: non-negative for every tensor size / bit width / placement
  sz, bits, msz = z3.Ints("elements qbits min_sram")
  base2 = [sz >= 1, sz <= 2 ** 20, bits >= 1, bits <= 32, msz >= 0, msz <= 2 ** 20]
  import numpy as real_np
  for mode, io, inp in itertools.product(("dram", "sram", "fixed"), (True, False), (True, False)):
    def fn2(mode=mode, io=io, inp=inp):
      rd = qenergy.memory_read_energy(inp, (None, SymInt(sz)), mode, SymInt(msz), io, SymInt(bits))
      wr = qenergy.memory_write_energy(inp, (None, SymInt(sz)), mode, SymInt(msz), io, SymInt(bits))
      return rd, wr
    try:
      with pysym.shadow(qenergy):
        paths, limits = pysym.explore(fn2, base=base2)
    except Exception as e:  # pylint: disable=broad-except
      run.aux.setdefault("energy_memory_not_executable", []).append("%s/%s/%s: %r" % (mode, io, inp, str(e)[:160]))
      continue
    for pi, (pc, (rd, wr), facts) in enumerate(paths):
      neg = []
      for val in (rd, wr):
        e = _as_real(val)
        if e is not None:
          neg.append(e < 0)
      if not neg:
        continue
      v, model = harness.z3_query(run, "energy_mem_%s_%s_%s_p%d" % (mode, int(io), int(inp), pi), list(pc), [z3.Or(*neg)], dict(clause="energy_nonneg", mode=mode, rd_wr_on_io=io, io_layer=inp))
      if model is not None:
        run.violation(dict(clause="energy_nonneg", mode=mode), dict(model=str(model)[:300]), dict(clause="energy_nonneg", mode=mode))
    run.configs.append("energy_mem:%s:%s:%s" % (mode, io, inp))
  # placement of model inputs / outputs is decided by rd_wr_on_io alone ("if false, we assume data is already in SRAM"; if true it
  # is moved from / to DRAM): the entry of an I/O layer equals that of an inner layer placed in dram (True) / sram (False),
  # whatever activations_on_memory says
  for mode, io in itertools.product(("dram", "sram", "fixed"), (True, False)):
    ref_mode = "dram" if io else "sram"

    def fn3(mode=mode, io=io, ref_mode=ref_mode):
      rd = qenergy.memory_read_energy(True, (None, SymInt(sz)), mode, SymInt(msz), io, SymInt(bits))
      rd_ref = qenergy.memory_read_energy(False, (None, SymInt(sz)), ref_mode, SymInt(msz), io, SymInt(bits))
      wr = qenergy.memory_write_energy(True, (None, SymInt(sz)), mode, SymInt(msz), io, SymInt(bits))
      wr_ref = qenergy.memory_write_energy(False, (None, SymInt(sz)), ref_mode, SymInt(msz), io, SymInt(bits))
      return rd, rd_ref, wr, wr_ref
    try:
      with pysym.shadow(qenergy):
        paths, limits = pysym.explore(fn3, base=base2)
    except Exception as e:  # pylint: disable=broad-except
      run.aux.setdefault("energy_memory_not_executable", []).append("io placement %s/%s: %r" % (mode, io, str(e)[:160]))
      continue
    for pi, (pc, (rd, rd_ref, wr, wr_ref), facts) in enumerate(paths):
      diff = []
      for a_, b_ in ((rd, rd_ref), (wr, wr_ref)):
        ea, eb = _as_real(a_), _as_real(b_)
        if ea is not None and eb is not None:
          diff.append(ea != eb)
      if not diff:
        continue
      v, model = harness.z3_query(run, "energy_io_%s_%s_p%d" % (mode, int(io), pi), list(pc), [z3.Or(*diff)],
                                  dict(clause="io_placement", mode=mode, rd_wr_on_io=io))
      if model is not None:
        run.violation(dict(clause="io_placement", mode=mode, rd_wr_on_io=io), dict(model=str(model)[:300]), dict(clause="io_placement", mode=mode, rd_wr_on_io=io))
    run.configs.append("energy_io:%s:%s" % (mode, io))


def e2e(run):
  """auxiliary (concrete): the real QTools pipeline on real models - legacy Keras attributes stubbed - reports, per layer, the
  loop-nest count of the layer Keras actually built, non-negative energies, a total that is the sum of all entries and an
  extracted sum equal to the selected entries"""
  from .. import legacy_keras, layers
  from . import c18
  legacy_keras.install()
  Q = layers.qk()
  keras = layers.K3()
  from qkeras.qtools import run_qtools

  def pool_merge():
    i = keras.Input((6, 6, 2), name="in")
    a = Q.QConv2D(2, (3, 3), strides=2, padding="same", kernel_quantizer="quantized_bits(4,0,1,alpha=1)", bias_quantizer="quantized_bits(4,0,1,alpha=1)", name="ca")(i)
    b_ = Q.QConv2D(2, (2, 2), strides=2, dilation_rate=1, padding="same", kernel_quantizer="quantized_bits(4,0,1,alpha=1)", use_bias=False, name="cb")(i)
    y = keras.layers.Add(name="add")([a, b_])
    y = Q.QActivation("quantized_relu(4,1)", name="act")(y)
    y = keras.layers.Flatten(name="f")(y)
    y = Q.QDense(3, kernel_quantizer="quantized_bits(4,0,1,alpha=1)", bias_quantizer="quantized_bits(4,0,1,alpha=1)", name="d")(y)
    return keras.Model(i, y)
  def broadcast_merge():
    # merge layers whose operands broadcast: the count is that of the largest operand, whichever position it has
    i = keras.Input((4, 3, 2), name="in")
    f = Q.QConv2D(2, (1, 1), kernel_quantizer="quantized_bits(4,0,1,alpha=1)", use_bias=False, name="feat")(i)
    g = Q.QConv2D(2, (4, 3), kernel_quantizer="quantized_bits(4,0,1,alpha=1)", use_bias=False, name="gate")(i)      # (1,1,2)
    y = keras.layers.Multiply(name="mul_big_first")([f, g])
    z = keras.layers.Add(name="add_big_last")([g, y])
    # the same with the small operand created (and therefore referenced) before the large one
    g2 = Q.QConv2D(2, (4, 3), kernel_quantizer="quantized_bits(4,0,1,alpha=1)", use_bias=False, name="gate2")(i)
    f2 = Q.QConv2D(2, (1, 1), kernel_quantizer="quantized_bits(4,0,1,alpha=1)", use_bias=False, name="feat2")(i)
    y2 = keras.layers.Multiply(name="mul_small_first")([g2, f2])
    z2 = keras.layers.Add(name="add_three")([g2, y2, g])
    # squeeze-and-excite shape: the small operand is computed *from* the large one, so its producer comes later in the graph
    g3 = Q.QConv2D(2, (4, 3), kernel_quantizer="quantized_bits(4,0,1,alpha=1)", use_bias=False, name="gate_of_feat")(f)
    z3 = keras.layers.Multiply(name="mul_excite")([f, g3])
    return keras.Model(i, [z, z2, z3])
  models = [(n, mk, src) for n, mk, src in c18.map_models() if n != "auto_po2_dense"] + [("branch_add", pool_merge, "quantized_bits(8,0,1)"),
                                                                                          ("broadcast_merge", broadcast_merge, "quantized_bits(8,0,1)")]
  nl = 0
  for mname, mk, src in models:
    try:
      model = mk()
      qt = run_qtools.QTools(model, process="horowitz", source_quantizers=[Q.quantizers.get_quantizer(src)], is_inference=False, weights_path=None,
                             keras_quantizer="fp32", keras_accumulator="fp32", for_reference=False)
    except Exception as e:  # pylint: disable=broad-except
      run.inconclusive_("QTools cannot process %s: %r" % (mname, e))
      continue
    lmap = qt._layer_map["layer_data_type_map"]
    for layer, item in lmap.items():
      cnt = item.get("operation_count") if isinstance(item, dict) else getattr(item, "operation_count", None)
      want = true_count(layer)
      if want is None or cnt is None:
        continue
      nl += 1
      run.concrete_checks += 1
      if int(cnt) != int(want):
        run.violation(dict(clause="operation_count_e2e", layer=type(layer).__name__), dict(model=mname, layer=layer.name, reported=int(cnt), loop_nest=int(want)),
                      dict(clause="e2e", model=mname, layer=layer.name))
    for wm, am, msz, io in itertools.product(("dram", "sram", "fixed"), ("dram", "sram"), (0, 4096), (True, False)):
      ed = qt.pe(weights_on_memory=wm, activations_on_memory=am, min_sram_size=msz, rd_wr_on_io=io)
      run.concrete_checks += 1
      tot = 0.0
      bad = None
      for lname, ent in ed.items():
        if lname == "total_cost":
          continue
        for k, v in ent["energy"].items():
          if v < 0:
            bad = ("negative_energy", dict(layer=lname, entry=k, value=float(v)))
          tot += float(v)
      if bad is None and abs(float(ed["total_cost"]) - tot) > 1e-6 * max(1.0, abs(tot)) + 1.0:
        bad = ("total_is_not_the_sum", dict(total_cost=float(ed["total_cost"]), sum_of_entries=tot))
      cfg = {"default": ["inputs", "parameters", "op_cost"]}
      if bad is None:
        got = qt.extract_energy_sum(cfg, ed)
        want_s = sum(ent["energy"][k] for ln, ent in ed.items() if ln != "total_cost" for k in cfg["default"])
        if got != int(want_s):
          bad = ("extracted_sum", dict(got=got, want=int(want_s)))
      if bad is not None:
        run.violation(dict(clause="energy_e2e", what=bad[0]), dict(model=mname, placement=[wm, am, msz, io], **bad[1]), dict(clause="e2e", model=mname))
        break
    run.configs.append("e2e:" + mname)
  run.aux["e2e_layers_counted"] = nl


def true_count(layer):
  """multiply(-accumulate) count of one sample for the layer Keras actually built: output elements x taps"""
  cn = type(layer).__name__
  try:
    out = tuple(int(d) for d in layer.output.shape[1:])
  except Exception:  # pylint: disable=broad-except
    return None
  n_out = int(np.prod(out))
  if cn in ("QDense", "Dense"):
    return int(layer.get_weights()[0].shape[0]) * out[-1]
  if cn in ("QConv2D", "Conv2D", "QConv1D", "Conv1D"):
    k = layer.get_weights()[0].shape
    return n_out * int(np.prod(k[:-1]))
  if cn in ("QDepthwiseConv2D", "DepthwiseConv2D"):
    k = layer.get_weights()[0].shape
    return n_out * int(np.prod(k[:2]))
  if cn in ("Add", "Multiply", "Subtract"):
    return n_out
  return None


def _as_real(v):
  import numpy as np_
  if isinstance(v, np_.ndarray):
    v = v.reshape(-1)[0] if v.size else 0
  if isinstance(v, (SymReal, SymInt)):
    e = lift(v)
    return z3.ToReal(e) if not z3.is_real(e) else e
  try:
    return z3.RealVal(float(v))
  except Exception:  # pylint: disable=broad-except
    return None


def _ssum(xs):
  acc = 0
  for x in xs:
    acc = acc + x
  return acc


def replay(body):
  rep = body["replay"]
  if rep.get("clause") == "operation_count":
    ok, detail = replay_count(rep)
    print("replay:", detail, "-> violation reproduced" if ok else "-> not reproduced")
    return ok
  print("replay: re-run ./check C19")
  return True


def run(tier, seed):
  r = harness.Run(PROP, "model_checking", tier, seed)
  counts(r)
  try:
    energy(r)
  except Exception as e:  # pylint: disable=broad-except
    import traceback
    traceback.print_exc()
    r.inconclusive_("energy part failed: %r" % (e,))
  try:
    e2e(r)
  except Exception as e:  # pylint: disable=broad-except
    import traceback
    traceback.print_exc()
    r.inconclusive_("harness error in the end-to-end part: %r" % (e,))
  r.functions = ["QTools.__init__ / QTools.pe / qenergy.energy_estimate on real models (auxiliary, concrete)", "qtools_util.get_operation_count", "QTools.extract_energy_sum", "QTools.extract_energy_profile", "qenergy.memory_read_energy", "qenergy.memory_write_energy"]
  r.bounds = ["counts: spatial 4..12, kernel 1..5, stride 1..3, dilation 1..2, channels 1..8, same/valid - all symbolic; groups and depth multipliers > 1 not covered",
              "energy: extract_energy_sum/profile on a symbolic 3-layer energy dictionary for four cost settings (one with an empty per-class selection); memory read/write energy for "
              "tensor size <= 2^20, bits <= 32, min_sram_size <= 2^20, all placements",
              "end to end (auxiliary, concrete; legacy Keras attributes stubbed): the real QTools on four real models (dense stack, conv2d/depthwise/dense, "
              "conv1d, two strided conv branches merged by Add, broadcasting Multiply / Add): reported operation_count = output elements x taps of the layer Keras built; QTools.pe() "
              "for 24 placements: entries >= 0, total_cost = sum of entries, extract_energy_sum = sum of the selected entries",
              "NOT covered: extract_model_operations (qkeras.estimate); "
              "'entries are the documented functions of the reported types' is a restatement of the code and is not claimed"]
  r.assumptions = ["layers are stand-ins named like the real classes whose compute_output_shape returns the Keras output-shape contract "
                   "(validated against real Keras layers on corner geometries)", "np.log2 / np.ceil contracts; np.poly1d cost polynomials are the real ones"]
  r.trusted = ["z3 (NIA/NRA)", "vf.pysym proxies and shims"]
  return r.finish("get_operation_count runs on layers with symbolic geometry; the solver decides that the returned count equals the loop-nest "
                  "count (#output elements x #taps) for every geometry in the bounds.  The energy-sum extraction and the memory energy functions "
                  "run on symbolic energies / sizes: sums equal the selected entries, memory energies are non-negative.")
