"""C16 - qtools multiplier output types represent every product of their operand types."""
import itertools
import time
from fractions import Fraction
import z3

from .. import harness, pysym, qtypes
from ..pysym import SymInt

PROP = "C16"
KINDS = ["fixed", "po2s", "po2u", "ternary", "binary", "binary01", "float"]


def mods():
  from qkeras.qtools.quantized_operators import multiplier_impl, multiplier_factory, quantizer_impl, accumulator_impl, adder_impl
  return multiplier_impl, multiplier_factory, quantizer_impl, accumulator_impl, adder_impl


def expected_impl(a, b):
  if "float" in (a, b):
    return "mul"
  if "binary01" in (a, b):
    return "and"
  if a == "binary" and b == "binary":
    return "xor"
  if a in ("ternary", "binary") or b in ("ternary", "binary"):
    return "mux"
  if a.startswith("po2") and b.startswith("po2"):
    return "add"
  if a.startswith("po2") or b.startswith("po2"):
    return "shifter"
  return "mul"


def mk_operand(kind, tag, mv, maxbits, po2bits):
  """real quantizer_impl object with symbolic numeric fields; returns (object, domain constraints)"""
  qi = mods()[2]
  dom = []
  if kind == "fixed":
    q = qi.QuantizedBits()
    b, i, s = z3.Int(tag + "_bits"), z3.Int(tag + "_int"), z3.Int(tag + "_signed")
    q.bits, q.int_bits, q.is_signed = SymInt(b), SymInt(i), SymInt(s)
    dom = [b >= 1, b <= maxbits, z3.Or(s == 0, s == 1), i >= 0, i <= b - s, b - s >= 1]
  elif kind in ("po2s", "po2u"):
    signed = kind == "po2s"
    q = qi.PowerOfTwo(is_signed=1 if signed else 0)
    b = z3.Int(tag + "_bits")
    q.bits = SymInt(b)
    q.int_bits = SymInt(b)
    q.max_val_po2 = mv
    dom = [b >= (2 if signed else 1), b <= po2bits]
  elif kind == "ternary":
    q = qi.Ternary()
  elif kind == "binary":
    q = qi.Binary(use_01=False)
  elif kind == "binary01":
    q = qi.Binary(use_01=True)
  elif kind == "float":
    q = qi.FloatingPoint(bits=32)
  return q, dom


def operand_val(kind, q, tag, qi):
  if kind == "fixed":
    return qtypes.fixed_operand(q, tag)
  if kind.startswith("po2"):
    return qtypes.po2_operand(q, tag, qi.get_exp(q))
  if kind == "ternary":
    return qtypes.literal_operand([-1, 0, 1], tag)
  if kind == "binary":
    return qtypes.literal_operand([-1, 1], tag)
  if kind == "binary01":
    return qtypes.literal_operand([0, 1], tag)
  return None


def output_member(out, m, e, qi):
  """(membership, side-bounds, kind) of the value m*2^e in the output type object"""
  cn = type(out).__name__
  if out.is_floating_point is True or cn == "FloatingPoint":
    return z3.BoolVal(True), z3.BoolVal(True), "float"
  if cn == "QuantizedBits":
    mem, inb = qtypes.member_fixed(m, e, out.bits, out.int_bits, out.is_signed)
    return mem, inb, "fixed"
  if cn in ("PowerOfTwo", "ReluPowerOfTwo"):
    return qtypes.member_po2(m, e, out.is_signed, qi.get_exp(out)), z3.BoolVal(True), "po2"
  if cn == "Ternary":
    return z3.And(e == 0, z3.Or(m == -1, m == 0, m == 1)), z3.BoolVal(True), "ternary"
  if cn == "Binary":
    vals = (0, 1) if out.use_01 else (-1, 1)
    return z3.And(e == 0, z3.Or(*[m == v for v in vals])), z3.BoolVal(True), "binary"
  raise NotImplementedError(cn)


def explore_pair(wk, xk, wmv, xmv, maxbits, po2bits):
  mi, mf, qi, ai, adi = mods()
  w0, domw = mk_operand(wk, "w", wmv, maxbits, po2bits)
  x0, domx = mk_operand(xk, "x", xmv, maxbits, po2bits)
  base = domw + domx

  def fn():
    mult = mf.MultiplierFactory().make_multiplier(w0, x0)
    res = dict(mult=mult, impl=mult.implemented_as(), out=mult.output)
    if "float" not in (wk, xk):
      vw, vx = operand_val(wk, w0, "w", qi), operand_val(xk, x0, "x", qi)
      m, e = vw.m * vx.m, vw.e + vx.e
      mem, inb, okind = output_member(mult.output, m, e, qi)
      res.update(vw=vw, vx=vx, m=m, e=e, mem=mem, inb=inb, okind=okind)
    return res

  with pysym.shadow(mi, qi, ai, adi):
    paths, limits = pysym.explore(fn, base=base)
  return base, paths, limits


def concrete_operand(kind, model, tag, mv):
  qi = mods()[2]
  g = lambda n: model[n]
  if kind == "fixed":
    q = qi.QuantizedBits()
    q.bits, q.int_bits, q.is_signed = g(tag + "_bits"), g(tag + "_int"), g(tag + "_signed")
  elif kind in ("po2s", "po2u"):
    q = qi.PowerOfTwo(is_signed=1 if kind == "po2s" else 0)
    q.bits = q.int_bits = g(tag + "_bits")
    q.max_val_po2 = mv
  elif kind == "ternary":
    q = qi.Ternary()
  elif kind == "binary":
    q = qi.Binary(use_01=False)
  elif kind == "binary01":
    q = qi.Binary(use_01=True)
  else:
    q = qi.FloatingPoint(bits=32)
  return q


def value_of(kind, q, model, tag):
  """exact Fraction of the operand value named by the model, and whether it is in the type's set"""
  qi = mods()[2]
  m = model["m_" + tag]
  if kind == "fixed":
    frac = q.bits - q.is_signed - q.int_bits
    ok = -q.is_signed * 2 ** (q.bits - q.is_signed) <= m <= 2 ** (q.bits - q.is_signed) - 1
    return Fraction(m) * Fraction(2) ** (-frac), ok
  if kind.startswith("po2"):
    e = model["e_" + tag]
    mn, mx = qi.get_exp(q)
    ok = (m == 1 or (q.is_signed and m == -1)) and -mn <= e <= mx
    return Fraction(m) * Fraction(2) ** e, ok
  return Fraction(m), m in {"ternary": (-1, 0, 1), "binary": (-1, 1), "binary01": (0, 1)}[kind]


def representable(out, v):
  qi = mods()[2]
  cn = type(out).__name__
  if cn == "FloatingPoint" or out.is_floating_point:
    return True
  if cn == "QuantizedBits":
    frac = out.bits - out.is_signed - out.int_bits
    k = v * Fraction(2) ** frac
    return k.denominator == 1 and -out.is_signed * 2 ** (out.bits - out.is_signed) <= k <= 2 ** (out.bits - out.is_signed) - 1
  if cn in ("PowerOfTwo", "ReluPowerOfTwo"):
    if v == 0:
      return True
    mn, mx = qi.get_exp(out)
    a = abs(v)
    import math
    e = math.log2(a)
    return e == int(e) and -mn <= int(e) <= mx and (v > 0 or out.is_signed)
  if cn == "Ternary":
    return v in (-1, 0, 1)
  if cn == "Binary":
    return v in ((0, 1) if out.use_01 else (-1, 1))
  return False


def replay_concrete(rep):
  mf = mods()[1]
  model = rep["model"]
  w = concrete_operand(rep["wk"], model, "w", rep.get("wmv", -1))
  x = concrete_operand(rep["xk"], model, "x", rep.get("xmv", -1))
  mult = mf.MultiplierFactory().make_multiplier(w, x)
  out = mult.output
  detail = dict(pair=[rep["wk"], rep["xk"]], impl=mult.implemented_as(), out_type=type(out).__name__,
                out=dict(bits=out.bits, int_bits=out.int_bits, is_signed=int(out.is_signed), max_val_po2=out.max_val_po2),
                w=dict(bits=w.bits, int_bits=w.int_bits, is_signed=int(w.is_signed), max_val_po2=w.max_val_po2),
                x=dict(bits=x.bits, int_bits=x.int_bits, is_signed=int(x.is_signed), max_val_po2=x.max_val_po2))
  if rep["clause"] == "impl":
    detail["expected"] = expected_impl(rep["wk"], rep["xk"])
    return mult.implemented_as() != detail["expected"], detail
  vw, okw = value_of(rep["wk"], w, model, "w")
  vx, okx = value_of(rep["xk"], x, model, "x")
  p = vw * vx
  detail.update(vw=str(vw), vx=str(vx), product=str(p))
  if not (okw and okx):
    detail["why"] = "operand value outside its type"
    return False, detail
  return not representable(out, p), detail


def replay(body):
  ok, detail = replay_concrete(body["replay"])
  print("replay:", detail, "-> violation reproduced" if ok else "-> not reproduced")
  return ok


def model_dict(m):
  d = {}
  for dcl in m.decls():
    v = m[dcl]
    if z3.is_int_value(v):
      d[dcl.name()] = v.as_long()
  return d


def link_conversions(run):
  """convert_qkeras_quantizer vs the quantizers' own declared formats (finite enumeration, auxiliary)"""
  from qkeras import quantizers as Q
  from qkeras.qtools.quantized_operators import quantizer_impl as qi
  from ..props import c03
  from .. import lattice
  n = 0
  for cls in ("quantized_po2", "quantized_relu_po2"):
    for bits in range(2, 9):
      for mv in (None, 0.25, 0.5, 1.0, 2.0, 4.0, 16.0):
        kw = dict(bits=bits)
        if mv is not None:
          kw["max_value"] = mv
        fmt = c03.po2_format(cls, kw)
        if fmt is None:
          continue
        q = getattr(Q, cls)(**kw)
        t = qi.PowerOfTwo(is_signed=(cls == "quantized_po2"))
        t.convert_qkeras_quantizer(q)
        mn, mx = t.get_min_max_exp()
        n += 1
        # every exponent the quantizer can emit must be inside the interval qtools derives for the converted type
        lo_q, hi_q = max(fmt["min_exp"], -126), fmt["kmax"]
        if not (-mn <= lo_q and hi_q <= mx):
          region = "max_value_le_1" if (mv is not None and mv <= 1) else ("bits8_relu" if fmt["min_exp"] < -126 else "other")
          run.violation(dict(clause="convert_po2", cls=cls, region=region),
                        dict(cfg="%s(%s)" % (cls, kw), quantizer_exponents=[lo_q, hi_q], qtools_exponents=[-mn, mx]),
                        dict(clause="convert_po2", cls=cls, kw=kw))
  one_bit = [("quantized_relu", dict(bits=1, integer=i)) for i in (0, 1, 2)] + [("quantized_bits", dict(bits=1, integer=i, keep_negative=False)) for i in (0, 1)]
  for cls, kw in list(lattice.fixed_lattice("thorough", 0, classes=("quantized_bits", "quantized_relu"))) + one_bit:
    if kw.get("alpha") is not None or kw.get("use_sigmoid") or kw.get("relu_upper_bound") is not None:
      continue
    fmt = lattice.fixed_format(cls, kw)
    if fmt is None or fmt.get("only"):
      continue
    q = getattr(Q, cls)(**kw)
    t = qi.QuantizedBits() if cls == "quantized_bits" else qi.QuantizedRelu()
    t.convert_qkeras_quantizer(q)
    n += 1
    if t.mode != 0:
      # the converted type is one of the literal kinds (ternary / binary): every code of the quantizer's format must be one of its values
      lit = {2: (-1, 0, 1), 3: (-1, 1), 4: (0, 1)}.get(t.mode)
      codes = [fmt["step"] * k for k in range(fmt["lo"], fmt["hi"] + 1)]
      if lit is None or any(c_ not in [Fraction(v) for v in lit] for c_ in codes):
        run.violation(dict(clause="convert_fixed", cls=cls, what="literal_kind"), dict(cfg="%s(%s)" % (cls, kw), qtools_mode=int(t.mode), format_codes=[str(c_) for c_ in codes]),
                      dict(clause="convert_fixed", cls=cls, kw=kw))
      continue
    s = int(bool(t.is_signed))
    frac = t.bits - s - t.int_bits
    step_ok = Fraction(2) ** (-frac) == fmt["step"] or (fmt["step"] / Fraction(2) ** (-frac)).denominator == 1
    lo, hi = -s * 2 ** (t.bits - s), 2 ** (t.bits - s) - 1
    k = fmt["step"] / Fraction(2) ** (-frac)
    if not (step_ok and lo <= fmt["lo"] * k and fmt["hi"] * k <= hi):
      run.violation(dict(clause="convert_fixed", cls=cls), dict(cfg="%s(%s)" % (cls, kw), qtools=dict(bits=t.bits, int_bits=t.int_bits, signed=s),
                                                               fmt=dict(step=str(fmt["step"]), lo=fmt["lo"], hi=fmt["hi"])),
                    dict(clause="convert_fixed", cls=cls, kw=kw))
  run.concrete_checks += n
  run.aux["conversions_enumerated"] = n


def pipeline_part(run):
  """the multiplier entries of the real QTools data-type map (legacy Keras attributes stubbed): for every weight layer of four real
  models, every product of an input-type value and a weight-type value - except most-negative x most-negative - is a value of the
  reported multiplier type"""
  from .. import legacy_keras, layers
  from . import c18
  legacy_keras.install()
  Q = layers.qk()
  from qkeras.qtools import run_qtools
  qi = mods()[2]
  n = 0
  for mname, mk, src in c18.map_models():
    try:
      model = mk()
      qt = run_qtools.QTools(model, process="horowitz", source_quantizers=[Q.quantizers.get_quantizer(src)], is_inference=False, weights_path=None,
                             keras_quantizer="fp32", keras_accumulator="fp32", for_reference=False)
    except Exception as e:  # pylint: disable=broad-except
      run.inconclusive_("QTools cannot process %s: %r" % (mname, e))
      continue
    for layer, item in qt._layer_map["layer_data_type_map"].items():
      if not isinstance(item, dict) or item.get("multiplier") is None:
        continue
      xin, wq, mult = item["input_quantizer_list"][0], item["weight_quantizer"], item["multiplier"].output
      kx, kw_ = c18.kind_of(xin), c18.kind_of(wq)
      if "float" in (kx, kw_, c18.kind_of(mult)):
        continue
      vx, vw = operand_val(kx, xin, "x", qi), operand_val(kw_, wq, "w", qi)
      mem, inb, okind = output_member(mult, vx.m * vw.m, vx.e + vw.e, qi)
      neg = [z3.Not(mem), z3.Not(z3.And(vw.most_negative, vx.most_negative))]
      if okind == "po2":
        neg.append(vx.m * vw.m != 0)
      meta = dict(clause="pipeline_product", model=mname, layer=layer.name, input=c18.tdesc(xin), weight=c18.tdesc(wq), multiplier=c18.tdesc(mult),
                  impl=item["multiplier"].implemented_as())
      v, mdl = harness.z3_query(run, "pipeline_%s_%s" % (mname, layer.name), [vx.member, vw.member, inb], neg, meta)
      n += 1
      if mdl is not None:
        from fractions import Fraction
        px = Fraction(mdl.get("m_x", 0)) * Fraction(2) ** int(mdl.get("e_x", -(int(xin.bits) - int(bool(xin.is_signed)) - int(xin.int_bits))) if kx.startswith("po2") else -(int(xin.bits) - int(bool(xin.is_signed)) - int(xin.int_bits)) if kx == "fixed" else 0)
        pw = Fraction(mdl.get("m_w", 0)) * Fraction(2) ** int(mdl.get("e_w", 0) if kw_.startswith("po2") else -(int(wq.bits) - int(bool(wq.is_signed)) - int(wq.int_bits)) if kw_ == "fixed" else 0)
        prod = px * pw
        if not representable(mult, prod):
          run.violation(dict(clause="pipeline_product", layer_class=type(layer).__name__), dict(meta, x=str(px), w=str(pw), product=str(prod)),
                        dict(clause="pipeline", model=mname, layer=layer.name))
        else:
          run.inconclusive_("pipeline product counterexample for %s/%s does not reproduce (x=%s, w=%s)" % (mname, layer.name, px, pw))
  run.aux["pipeline_layers"] = n


def run(tier, seed):
  r = harness.Run(PROP, "model_checking", tier, seed)
  maxbits = 8 if tier == "quick" else 16
  po2bits = 5 if tier == "quick" else 6
  # max_value < 1 is left out of the operand lattice: get_exp() over-approximates such types (max exponent floored at 0), which is
  # recorded separately by the conversion link (finding C16-get-exp-ignores-max-value-le-1) and would only repeat itself here
  mvs = [-1, 4.0] if tier == "quick" else [-1, 1.0, 4.0, 16.0]
  qi = mods()[2]
  n_paths = 0
  results = []
  t_solver = 0.0
  for wk, xk in itertools.product(KINDS, KINDS):
    wm = mvs if wk.startswith("po2") else [-1]
    xm = mvs if xk.startswith("po2") else [-1]
    for wmv, xmv in itertools.product(wm, xm):
      try:
        base, paths, limits = explore_pair(wk, xk, wmv, xmv, maxbits, po2bits)
      except Exception as e:  # pylint: disable=broad-except
        r.inconclusive_("symbolic execution of make_multiplier(%s,%s) failed: %r" % (wk, xk, e))
        continue
      for pc, why in limits:
        r.inconclusive_("path limit in (%s,%s): %s" % (wk, xk, why))
      for pi, (pc, res, facts) in enumerate(paths):
        n_paths += 1
        oid = "%s_%s_%s_%s_p%d" % (wk, xk, wmv, xmv, pi)
        rec = dict(id=oid, pair=[wk, xk], max_val=[wmv, xmv], impl=res["impl"], out_type=type(res["out"]).__name__)
        # clause 1: implementation kind
        r.concrete_checks += 1
        if res["impl"] != expected_impl(wk, xk):
          s0 = z3.Solver(); s0.add(*pc)
          if s0.check() == z3.sat:
            md = model_dict(s0.model())
            rep = dict(clause="impl", wk=wk, xk=xk, wmv=wmv, xmv=xmv, model=md)
            ok, detail = replay_concrete(rep)
            if ok:
              r.violation(dict(clause="impl", pair="%s*%s" % (wk, xk)), detail, rep)
        if "float" in (wk, xk):
          rec["verdict"] = "float-output" if (type(res["out"]).__name__ == "FloatingPoint") else "non-float output for float operand"
          if rec["verdict"] != "float-output":
            r.violation(dict(clause="float_output", pair="%s*%s" % (wk, xk)), rec, dict(clause="impl", wk=wk, xk=xk, model={}))
          results.append(rec)
          continue
        vw, vx = res["vw"], res["vx"]
        s = z3.Solver()
        s.set("timeout", 120000 if tier == "quick" else 600000)
        s.add(*pc)
        s.add(vw.member, vx.member)
        excl = z3.And(vw.most_negative, vx.most_negative)
        conds = [z3.Not(res["mem"]), z3.Not(excl)]
        if res["okind"] == "po2":
          conds.append(res["m"] != 0)          # po2 types have no zero code (gated by the mux/and select line)
        # twin: the assumptions alone are satisfiable
        t0 = time.time()
        tw = s.check()
        s.push()
        s.add(*conds)
        v = s.check()
        dt = time.time() - t0
        t_solver += dt
        rec.update(verdict=str(v), twin=str(tw), secs=round(dt, 2))
        ob = harness.solve.Obligation("%s_%s" % (PROP, oid), "(z3 python API) " + oid, meta=rec, solver="z3")
        ob.result = harness.solve.Result(str(v), {}, dt, "z3")
        r.obls.append(ob)
        tob = harness.solve.Obligation("%s_%s_twin" % (PROP, oid), "", expect="sat", meta=rec, solver="z3", twin=True)
        tob.result = harness.solve.Result(str(tw), {}, 0.0, "z3")
        r.obls.append(tob)
        if str(tw) != "sat":
          r.inconclusive_("twin of %s is %s" % (oid, tw))
        if v == z3.sat:
          md = model_dict(s.model())
          rep = dict(clause="product", wk=wk, xk=xk, wmv=wmv, xmv=xmv, model=md)
          ok, detail = replay_concrete(rep)
          if ok:
            r.violation(dict(clause="product", pair="%s*%s" % (wk, xk), impl=res["impl"]), detail, rep)
          else:
            r.inconclusive_("counterexample of %s does not reproduce: %s" % (oid, detail))
        elif v != z3.unsat:
          r.inconclusive_("%s: solver answered %s" % (oid, v))
        s.pop()
        results.append(rec)
  link_conversions(r)
  try:
    pipeline_part(r)
  except Exception as e:  # pylint: disable=broad-except
    import traceback
    traceback.print_exc()
    r.inconclusive_("harness error in the pipeline part: %r" % (e,))
  r.aux["paths_explored"] = n_paths
  r.configs = ["%s*%s" % p for p in itertools.product(KINDS, KINDS)]
  r.samples = results[:6]
  r.functions = ["MultiplierFactory.make_multiplier", "multiplier_impl.{FixedPointMultiplier,Shifter,Mux,AndGate,XorGate,Adder,FloatingPointMultiplier}.__init__",
                 "quantizer_impl.get_exp", "PowerOfTwo.get_min_max_exp", "convert_qkeras_quantizer (enumerated link to C01/C03 formats)"]
  r.bounds = ["fixed operands: bits 1..%d, int_bits 0..bits-sign, signedness - all symbolic; po2 operands: bits symbolic up to %d, max_value in %s" % (maxbits, po2bits, mvs),
              "operand value sets: fixed = two's-complement codes * 2^-frac; po2 = +-2^e with e in the interval the real get_exp() derives; "
              "ternary/binary literal sets.  Excluded: both operands at their most negative value; zero products into po2 output types",
              "every feasible path of the constructors is explored (forks on symbolic conditions)",
              "pipeline: the multiplier entries that the real QTools data-type map reports for 9 weight layers of four real models (legacy Keras "
              "attributes stubbed) - concrete types, symbolic operand codes, same exclusion"]
  r.assumptions = ["np.sqrt/np.log10 (gate-count estimates, irrelevant to the output type) are contract stubs",
                   "2**n is a finite table over the stated ranges (range violations are reported as path limits)"]
  r.trusted = ["z3 (NIA/LIA)", "vf.pysym proxies and shims (int/max/min/math.ceil/np.log2)", "vf.qtypes value-set semantics"]
  return r.finish("The real multiplier factory and implementation classes are executed on z3-backed integers for every ordered pair of operand "
                  "kinds; for every feasible path the solver decides that no pair of operand values (symbolic codes) has a product outside "
                  "the reported output type.  Counterexamples are replayed on the real classes with exact rational arithmetic.")
