"""C05 - auto-scaled fixed-point output = in-range integer codes times the recorded scale."""
import itertools
import numpy as np

from .. import harness, ir, qz, tfg, evalr
from . import c04

PROP = "C05"


def scale_tensor(q):
  """graph tensor the quantizer stored while tracing.  quantized_linear exposes `scale` as a property
  (quantization_scale / data_type_scale, a constant power-of-two factor); the stored tensor is quantization_scale."""
  if type(q).__name__ == "quantized_linear":
    return q.quantization_scale
  return q.scale


def levels_of(bits):
  return (2 ** (bits - 1) - 1) * 2


# ---- F. final stage for every admissible power-of-two scale (frozen-scale branch driven with a symbolic scale) -----------
def final_stage(run, idx, bits, integer, rng):
  import tensorflow as tf
  Q = qz.Q()
  q = Q.quantized_bits(bits, integer, 1, alpha="auto_po2")
  cfg = "quantized_bits(%d,%d,1,alpha='auto_po2') final stage, symbolic scale" % (bits, integer)

  def f(x, s):
    q.scale = s
    q.freeze_scale = True
    return q(x)
  b = ir.Builder()
  it = tfg.Interp(b)
  cf = tfg.trace(f, tf.TensorSpec((1,), tf.float32), tf.TensorSpec((1,), tf.float32))
  X, S = tfg.sym_input(b, "x", (1,)), tfg.sym_input(b, "s", (1,))
  outs, val = it.run(cf, [X, S])
  o, x, s = it.lift(outs[0]).reshape(-1)[0], X[0], S[0]
  # validation on concrete (x, 2^j)
  bad = 0
  for _ in range(30):
    xv = np.float32(rng.randn() * 4)
    sv = np.float32(2.0 ** rng.randint(-6, 6))
    q2 = Q.quantized_bits(bits, integer, 1, alpha="auto_po2")
    q2.scale, q2.freeze_scale = np.array([sv], dtype=np.float32), True
    real = np.float32(np.asarray(q2(tf.constant([xv]))).reshape(-1)[0])
    enc = tfg.concrete_env(b, [o], {"x_0": xv, "s_0": sv})[o.nid]
    bad += 0 if evalr.same(enc, real) else 1
  run.validated_points += 30
  run.validated_graphs += 1
  if bad:
    run.inconclusive_("translator mismatch for %s" % cfg)
    return
  run.configs.append(cfg)
  lv = levels_of(bits)
  stepk = integer - (bits - 1)
  L = ir.fp_lit
  dom = ["(= ((_ extract 22 0) s_0_b) (_ bv0 23))", "(= ((_ extract 31 31) s_0_b) #b0)",
         "(bvuge ((_ extract 30 23) s_0_b) #x%02x)" % (127 - 20), "(bvule ((_ extract 30 23) s_0_b) #x%02x)" % (127 + 20),
         qz.finite_normal(x), ir.L("(fp.lt (fp.abs {0}) (fp.mul RNE {1} %s))" % L(2.0 ** (20 + stepk)), x, s)]
  # out = s * (code * 2^stepk) with code integral and |code| <= levels/2   (all products exact: s and 2^stepk are powers of two)
  unit = "(fp.mul RNE {1} %s)" % L(2.0 ** stepk)
  code = "(fp.div RNE {0} %s)" % unit
  bad_ = "(or (not (fp.eq (fp.roundToIntegral RNE %s) %s)) (fp.gt (fp.abs %s) %s) (not (fp.eq (fp.mul RNE %s %s) {0})))" % (code, code, code, L(lv / 2), code, unit)
  meta = dict(clause="final_stage", bits=bits, integer=integer)
  run.add("F%02d_final" % idx, ir.build_smt(b, dom + [ir.L(bad_, o, s)]), meta=meta, timeout=1500)
  run.add_twin("F%02d_final" % idx, ir.build_smt(b, dom + [ir.L("(= {0} {0})", o)]), meta=meta)


FLOOR_SPLIT = 2.0 ** -12      # 2.4e-4 >> 127 * 1e-7: above it the epsilon floor of quantized_linear's step cannot bind (bits <= 8)


# ---- A. 'auto': the channel maximum is mapped to the top code and not clipped; finite outputs; positive scale ----------------
def auto_channel(run, idx, cls, bits, integer, rng):
  import tensorflow as tf
  kw = dict(bits=bits, integer=integer, alpha="auto")
  q = qz.make(cls, kw)
  shape = (2, 1)
  cfg = qz.cfg_str(cls, kw) + " on %s" % (shape,)
  tr = qz.Traced(q, shape)
  b = tr.b
  S = tr.it.lift(tr.val[scale_tensor(q).name]).reshape(-1)
  ts = [rng.randn(*shape) * s_ for s_ in (0.01, 1.0, 30.0)] + [np.zeros(shape), np.array([[0.0], [1.5]]), np.array([[-3.0], [3.0]])]
  bad = qz.validate_tensor(tr, q, ts)
  run.validated_points += len(ts)
  run.validated_graphs += 1
  if bad:
    run.inconclusive_("translator mismatch for %s: %s" % (cfg, str(bad[:1])[:300]))
    return
  run.configs.append(cfg)
  b.close_stubs()
  xa, xb = tr.xs()
  oa, ob = tr.outs()
  s0 = S[0]
  L = ir.fp_lit
  dom = []
  for xn in (xa, xb):
    dom += [qz.finite_normal(xn), qz.abs_lt(xn, 2.0 ** 40), ir.L("(or (fp.isZero {0}) (fp.geq (fp.abs {0}) %s))" % L(2.0 ** -20), xn)]
  meta = dict(clause="auto_channel", cls=cls, kw=kw, shape=list(shape))
  # finite outputs and a finite, non-negative scale for every finite channel (including the all-zero one)
  fin = "(or (fp.isNaN {0}) (fp.isInfinite {0}) (fp.isNaN {1}) (fp.isInfinite {1}) (fp.isNaN {2}) (fp.isInfinite {2}) (fp.lt {2} %s))" % ir.PZ
  run.add("A%02d_finite" % idx, ir.build_smt(b, dom + [ir.L(fin, oa, ob, s0)]), meta=dict(meta, clause="finite"), timeout=1500)
  # positive scale unless the channel is all zero
  run.add("A%02d_scale_pos" % idx, ir.build_smt(b, dom + [ir.L("(and (not (and (fp.isZero {0}) (fp.isZero {1}))) (not (fp.gt {2} %s)))" % ir.PZ, xa, xb, s0)]),
          meta=dict(meta, clause="scale_positive"), timeout=1500)
  # the element of largest magnitude is reproduced up to float rounding (top code, not clipped): |out_a - a| <= |a| * 2^-20
  nc = "(and (fp.geq (fp.abs {0}) (fp.abs {1})) (not (fp.isZero {0})) (fp.gt (fp.abs (fp.sub RNE {2} {0})) (fp.mul RNE (fp.abs {0}) %s)))" % L(2.0 ** -20)
  if cls == "quantized_linear":
    # quantized_linear floors its quantization step at keras epsilon (1e-7): 'top code' is only meaningful for maxima well
    # above top_code * 1e-7.  Two regions for the strict clause (the lower one is a recorded finding) and, for the whole
    # domain, 'not clipped' in its literal sense: the maximum is within (just over) half a step of its image.
    if not run.quick():      # ~20 min each (division by a non-power-of-two scale): thorough tier only
      hi_r = ir.L("(fp.geq (fp.abs {0}) %s)" % L(FLOOR_SPLIT), xa)
      lo_r = ir.L("(fp.lt (fp.abs {0}) %s)" % L(FLOOR_SPLIT), xa)
      run.add("A%02d_max_not_clipped" % idx, ir.build_smt(b, dom + [hi_r, ir.L(nc, xa, xb, oa)]), meta=dict(meta, clause="max_not_clipped", region="above_epsilon_floor"), timeout=3600)
      run.add("A%02d_max_not_clipped_floor" % idx, ir.build_smt(b, dom + [lo_r, ir.L(nc, xa, xb, oa)]), meta=dict(meta, clause="max_not_clipped", region="near_epsilon_floor"), timeout=3600)
      unit = "{3}"          # for quantized_linear the traced scale tensor is the quantization step itself (quantization_scale)
      rounded = "(and (fp.geq (fp.abs {0}) (fp.abs {1})) (not (fp.isZero {0})) (fp.gt (fp.abs (fp.sub RNE {2} {0})) (fp.mul RNE %s %s)))" % (unit, L(0.5 + 2.0 ** -10))
      run.add("A%02d_max_within_half_step" % idx, ir.build_smt(b, dom + [ir.L(rounded, xa, xb, oa, s0)]), meta=dict(meta, clause="max_within_half_step"), timeout=3600)
  else:
    run.add("A%02d_max_not_clipped" % idx, ir.build_smt(b, dom + [ir.L(nc, xa, xb, oa)]), meta=dict(meta, clause="max_not_clipped"), timeout=3600)
  run.add_twin("A%02d" % idx, ir.build_smt(b, dom + [ir.L("(= {0} {0})", oa), ir.L("(fp.gt (fp.abs {0}) (fp.abs {1}))", xa, xb)]), meta=meta)


# ---- P. auto_po2: the exposed scale is an exact power of two inside the configured exponent bounds ---------------------------------
# The five refinement rounds do not fit one query (even the reachability twin times out), so the claim is decided by induction
# over the rounds with the working scale of the previous round as a *cut point*: every pow2 stub result is a free variable of
# the encoding already; for round k the side conditions defining the round k-1 scale are dropped and replaced by the invariant
# "positive power of two with exponent in [INV_LO, INV_HI]".
INV_LO, INV_HI = -30, 40


def po2_bits(name, lo=INV_LO, hi=INV_HI):
  return ("(and (= ((_ extract 22 0) %s) (_ bv0 23)) (= ((_ extract 31 31) %s) #b0) (bvuge ((_ extract 30 23) %s) #x%02x) (bvule ((_ extract 30 23) %s) #x%02x))"
          % (name, name, name, 127 + lo, name, 127 + hi))


def po2_scale(run, idx, cls, kw, shape, rng):
  q = qz.make(cls, kw)
  cfg = qz.cfg_str(cls, kw) + " on %s" % (shape,)
  tr = qz.Traced(q, shape)
  b = tr.b
  S = tr.it.lift(tr.val[scale_tensor(q).name]).reshape(-1)
  ts = [rng.randn(*shape) * s_ for s_ in (0.05, 1.0, 20.0)] + [np.zeros(shape)]
  bad = qz.validate_tensor(tr, q, ts)
  run.validated_points += len(ts)
  run.validated_graphs += 1
  if bad:
    run.inconclusive_("translator mismatch for %s: %s" % (cfg, str(bad[:1])[:300]))
    return
  run.configs.append(cfg)
  b.close_stubs()
  dom = []
  for xn in tr.xs():
    dom += [qz.finite_normal(xn), qz.abs_lt(xn, 2.0 ** 30), ir.L("(or (fp.isZero {0}) (fp.geq (fp.abs {0}) %s))" % ir.fp_lit(2.0 ** -20), xn)]
  pows = [s_["res"] for s_ in b.stubs if s_["kind"] == "pow2"]
  nch = len(set(n.nid for n in S))
  if len(pows) % nch or len(pows) // nch != 6:
    run.inconclusive_("%s: expected 6 working scales per channel in the traced graph, found %d stubs for %d channels" % (cfg, len(pows), nch))
    return
  rounds = [pows[k * nch:(k + 1) * nch] for k in range(6)]
  meta = dict(clause="scale_po2", cls=cls, kw=kw, shape=list(shape))

  def tie(nodes, pref):
    decl = ["(declare-const %s%d (_ BitVec 32))" % (pref, i) for i in range(len(nodes))]
    ties = [ir.L("(= ((_ to_fp 8 24) %s%d) {0})" % (pref, i), n) for i, n in enumerate(nodes)]
    return decl, ties
  for k in range(6):
    decl, ties = tie(rounds[k], "t")
    goal = "(not (and %s))" % " ".join(po2_bits("t%d" % i) for i in range(nch))
    if k == 0:
      cut, inv, d2 = [], [], []
    else:
      cut = rounds[k - 1]
      d2, t2 = tie(cut, "c")
      inv = t2 + [po2_bits("c%d" % i) for i in range(nch)]
    gv = [n.attr + "_b" for n in tr.xs()]
    run.add("P%02d_round%d" % (idx, k), ir.build_smt(b, dom + inv + ties + [goal], extra_decls=decl + d2, cut=cut, get_values=gv),
            meta=dict(meta, clause="scale_po2_round", round=k), timeout=1500)
    run.add_twin("P%02d_round%d" % (idx, k), ir.build_smt(b, dom + inv + ties, extra_decls=decl + d2, cut=cut, get_values=gv), meta=meta)
  # final: exposed scale (working scale of the last round, clipped, times 2^(bits-1)) and the outputs, with the last round as the cut
  cut = rounds[5]
  d2, t2 = tie(cut, "c")
  inv = t2 + [po2_bits("c%d" % i) for i in range(nch)]
  sn = sorted(set(S), key=lambda n: n.nid)
  decl, ties = tie(sn, "sb")
  m_exp = kw["bits"] - 1
  lo_e, hi_e = kw.get("min_po2_exponent"), kw.get("max_po2_exponent")
  conds = [po2_bits("sb%d" % i, (lo_e if lo_e is not None else INV_LO) + m_exp, (hi_e if hi_e is not None else INV_HI) + m_exp) for i in range(len(sn))]
  run.add("P%02d_exposed" % idx, ir.build_smt(b, dom + inv + ties + ["(not (and %s))" % " ".join(conds)], extra_decls=decl + d2, cut=cut), meta=dict(meta, clause="scale_po2_exposed"), timeout=1500)
  fin = " ".join("(fp.isNaN {%d}) (fp.isInfinite {%d})" % (i, i) for i in range(len(tr.outs())))
  run.add("P%02d_finite" % idx, ir.build_smt(b, dom + inv + [ir.L("(or %s)" % fin, *tr.outs())], extra_decls=d2, cut=cut), meta=dict(meta, clause="finite_after_cut"), timeout=1500)


# ---- S. one scale per output channel / configured group (term structure) -------------------------------------------------------------------
STRUCT = [
    ("quantized_bits", dict(bits=4, integer=1, alpha="auto"), (4,)), ("quantized_bits", dict(bits=4, integer=1, alpha="auto"), (2, 2)),
    ("quantized_bits", dict(bits=4, integer=1, alpha="auto"), (2, 2, 2)), ("quantized_bits", dict(bits=4, integer=1, alpha="auto"), (1, 2, 2, 2)),
    ("quantized_bits", dict(bits=4, integer=0, alpha="auto", scale_axis=0), (2, 3)), ("quantized_bits", dict(bits=4, integer=0, alpha="auto_po2"), (2, 2)),
    ("quantized_bits", dict(bits=4, integer=0, alpha="auto_po2", scale_axis=0), (2, 2)),
    ("quantized_bits", dict(bits=4, integer=0, alpha="auto_po2", scale_axis=0, elements_per_scale=2), (4, 2)),
    ("quantized_bits", dict(bits=4, integer=0, alpha="auto_po2", scale_axis=1, elements_per_scale=1), (2, 2)),
    ("quantized_linear", dict(bits=4, integer=1, alpha="auto"), (2, 2)), ("quantized_linear", dict(bits=4, integer=1, alpha="auto", scale_axis=0), (2, 3)),
    ("quantized_linear", dict(bits=4, integer=1, alpha="auto_po2"), (2, 2)),
]


def structure(run, rng):
  for idx, (cls, kw, shape) in enumerate(STRUCT):
    cfg = qz.cfg_str(cls, kw) + " on %s" % (shape,)
    q = qz.make(cls, kw)
    try:
      tr = qz.Traced(q, shape)
    except tfg.Unsupported as e:
      run.inconclusive_("cannot translate %s: %s" % (cfg, e))
      continue
    S = tr.it.lift(tr.val[scale_tensor(q).name])
    ts = [rng.randn(*shape) * s_ for s_ in (0.1, 1.0, 10.0)] + [np.zeros(shape)]
    bad = qz.validate_tensor(tr, q, ts)
    run.validated_points += len(ts)
    run.validated_graphs += 1
    if bad and not all(np.allclose(np.asarray(e_), np.asarray(r_), rtol=1e-5, atol=1e-7) for (_, e_, r_) in bad):
      run.inconclusive_("translator mismatch for %s: %s" % (cfg, str(bad[:1])[:300]))
      continue
    run.configs.append(cfg)
    run.concrete_checks += 1
    try:
      Sb = np.broadcast_to(S, shape)
    except ValueError:
      run.violation(dict(clause="scale_shape", cls=cls), dict(cfg=cfg, scale_shape=list(S.shape)), dict(clause="scale_groups", cls=cls, kw=kw, shape=list(shape)))
      continue
    groups = {}
    for pos in np.ndindex(*shape):
      g = c04.group_of(pos, shape, kw.get("scale_axis"), kw.get("elements_per_scale"))
      if len(shape) == 1 and cls == "quantized_bits":
        g = ()          # legacy quantized_bits reduces a rank-1 tensor over its only axis: one scale for the vector
      groups.setdefault(g, []).append(pos)
    ok = all(len(set(Sb[p].nid for p in ps)) == 1 for ps in groups.values()) and len(set(Sb[ps[0]].nid for ps in groups.values())) == len(groups)
    if not ok:
      run.violation(dict(clause="scale_groups", cls=cls, scale_axis=str(kw.get("scale_axis")), eps=str(kw.get("elements_per_scale"))),
                    dict(cfg=cfg, scale_shape=list(S.shape), expected_groups=len(groups)), dict(clause="scale_groups", cls=cls, kw=kw, shape=list(shape)))
  # frozen post-training scale: the exposed scale is the given constant, per channel
  import tensorflow as tf
  pts = np.array([0.5, 0.25], dtype=np.float32)
  q = qz.make("quantized_bits", dict(bits=4, integer=0, alpha="auto_po2", post_training_scale=[0.5, 0.25]))
  x = rng.randn(3, 2).astype(np.float32)
  out = np.asarray(q(tf.constant(x)))
  run.concrete_checks += 1
  sc = np.asarray(q.scale, dtype=np.float32)
  code = out / (sc * 2.0 ** (0 - 3))
  if not (np.array_equal(np.broadcast_to(sc, (2,)), pts) and np.array_equal(code, np.round(code)) and np.all(np.abs(code) <= levels_of(4) / 2)):
    run.violation(dict(clause="post_training_scale"), dict(scale=sc.tolist(), out=out.tolist()), dict(clause="post_training_scale"))


def replay_concrete(rep):
  import tensorflow as tf
  Q = qz.Q()
  cl = rep["clause"]
  if cl == "final_stage":
    q = Q.quantized_bits(rep["bits"], rep["integer"], 1, alpha="auto_po2")
    s, x = ir.bits_f32(rep["s_bits"]), ir.bits_f32(rep["x_bits"])
    q.scale, q.freeze_scale = np.array([s], dtype=np.float32), True
    out = float(np.asarray(q(tf.constant([x]))).reshape(-1)[0])
    from fractions import Fraction
    unit = Fraction(float(s)) * Fraction(2) ** (rep["integer"] - (rep["bits"] - 1))
    code = Fraction(out) / unit
    bad = code.denominator != 1 or abs(code) > levels_of(rep["bits"]) // 2
    return bad, dict(x=float(x), scale=float(s), out=out, code=str(code))
  if cl == "scale_groups":
    return c04.replay_concrete(dict(rep, clause="scale_groups"))
  if cl == "post_training_scale":
    return True, {}
  shape = tuple(rep["shape"])
  q = qz.make(rep["cls"], rep["kw"])
  x = np.zeros(shape, dtype=np.float32)
  for pos in np.ndindex(*shape):
    bits = rep["model"].get("x" + "".join("_%d" % k for k in pos) + "_b")
    if bits is not None:
      x[pos] = ir.bits_f32(bits)
  out = np.asarray(q(tf.constant(x)))
  S = np.asarray(q.scale, dtype=np.float32)
  detail = dict(x=x.tolist(), out=out.tolist(), scale=S.tolist())
  if cl == "finite":
    return bool(not np.all(np.isfinite(out)) or not np.all(np.isfinite(S)) or np.any(S < 0)), detail
  if cl == "scale_positive":
    return bool(np.any(x != 0) and not np.all(S > 0)), detail
  if cl == "max_not_clipped":
    i = int(np.argmax(np.abs(x.reshape(-1))))
    a, oa = float(x.reshape(-1)[i]), float(out.reshape(-1)[i])
    return bool(a != 0 and abs(oa - a) > abs(a) * 2.0 ** -20), detail
  if cl == "max_within_half_step":
    i = int(np.argmax(np.abs(x.reshape(-1))))
    a, oa = float(x.reshape(-1)[i]), float(out.reshape(-1)[i])
    kw = rep["kw"]
    unit = float(S.reshape(-1)[0]) * 2.0 ** (kw["integer"] - (kw["bits"] - 1))
    return bool(a != 0 and abs(oa - a) > unit * (0.5 + 2.0 ** -10)), dict(detail, unit=unit)
  if cl == "scale_po2":
    fr, ex = np.frexp(S.astype(np.float64))
    bad = np.any(S <= 0) or np.any(fr != 0.5) or not np.all(np.isfinite(S))
    kw = rep["kw"]
    if rep["cls"] == "quantized_bits":
      m = 2.0 ** (kw["bits"] - 1)
      if kw.get("min_po2_exponent") is not None:
        bad = bad or np.any(S < m * 2.0 ** kw["min_po2_exponent"])
      if kw.get("max_po2_exponent") is not None:
        bad = bad or np.any(S > m * 2.0 ** kw["max_po2_exponent"])
    return bool(bad), detail
  return False, detail


def replay(body):
  ok, detail = replay_concrete(body["replay"])
  print("replay:", str(detail)[:600], "-> violation reproduced" if ok else "-> not reproduced")
  return ok


def triage(run):
  for o in run.obls:
    r = o.result
    if r is None or r.solver in ("z3", "hash-consing"):
      continue
    if o.twin:
      if r.verdict != "sat":
        run.inconclusive_("reachability twin %s is %s" % (o.oid, r.verdict))
      continue
    if r.verdict == "unsat":
      continue
    if r.verdict == "sat":
      m = o.meta
      if m["clause"] in ("scale_po2_round", "scale_po2_exposed", "finite_after_cut"):
        # a counterexample of an inductive step starts from an arbitrary invariant state: it is only a finding if the
        # *whole* quantizer misbehaves on that input; otherwise the invariant is too weak (inconclusive, not a violation)
        rep = dict(clause="scale_po2" if m["clause"] != "finite_after_cut" else "finite", cls=m["cls"], kw=m["kw"], shape=m["shape"], model=r.model)
        ok, detail = replay_concrete(rep)
        if ok:
          run.violation(dict(clause=rep["clause"], cls=m["cls"]), detail, rep)
        else:
          run.inconclusive_("inductive step %s fails from an invariant state that the real code does not reach on this input (invariant too weak): %s" % (o.oid, str(detail)[:200]))
        continue
      if m["clause"] == "final_stage":
        rep = dict(clause="final_stage", bits=m["bits"], integer=m["integer"], x_bits=r.model.get("x_0_b"), s_bits=r.model.get("s_0_b"))
      else:
        rep = dict(clause=m["clause"], cls=m["cls"], kw=m["kw"], shape=m["shape"], model=r.model)
      ok, detail = replay_concrete(rep)
      if ok:
        sig = dict(clause=m["clause"], cls=m.get("cls", "quantized_bits"))
        if m.get("region"):
          sig["region"] = m["region"]
        run.violation(sig, detail, rep)
      else:
        run.inconclusive_("counterexample of %s does not reproduce on the real code: %s" % (o.oid, str(detail)[:300]))
    else:
      run.inconclusive_("%s: solver answered %s %s" % (o.oid, r.verdict, r.raw[-200:]))


def run(tier, seed):
  r = harness.Run(PROP, "model_checking", tier, seed)
  rng = np.random.RandomState(seed)
  finals = [(4, 1), (2, 0), (8, 3), (6, 0)] if tier == "quick" else list(itertools.product((2, 3, 4, 6, 8), (0, 1, 2, 3)))
  for i, (bits, integer) in enumerate(finals):
    if integer > bits - 1:
      continue
    final_stage(r, i, bits, integer, rng)
  autos = [("quantized_bits", 4, 1), ("quantized_linear", 4, 1)] if tier == "quick" else \
      [(c, b_, i_) for c in ("quantized_bits", "quantized_linear") for b_, i_ in ((2, 0), (4, 1), (6, 2), (8, 3))]
  for i, (cls, bits, integer) in enumerate(autos):
    try:
      auto_channel(r, i, cls, bits, integer, rng)
    except tfg.Unsupported as e:
      r.inconclusive_("cannot translate %s auto: %s" % (cls, e))
  # one-element channels keep all five refinement rounds but have a single symbolic input; two-element channels are thorough-only
  # (a bound of exactly 0 is a bound: the second configuration keeps a lower bound of 0 and no upper bound)
  po2s = [("quantized_bits", dict(bits=4, integer=0, alpha="auto_po2"), (2, 1)),
          ("quantized_bits", dict(bits=4, integer=1, alpha="auto_po2", min_po2_exponent=0), (2, 1))]
  if tier == "thorough":
    po2s += [("quantized_bits", dict(bits=4, integer=0, alpha="auto_po2", min_po2_exponent=-3, max_po2_exponent=1), (2, 1)),
             ("quantized_bits", dict(bits=4, integer=0, alpha="auto_po2", max_po2_exponent=0), (2, 1)),
             ("quantized_bits", dict(bits=4, integer=0, alpha="auto_po2", min_po2_exponent=0, max_po2_exponent=0), (2, 1)),
             ("quantized_bits", dict(bits=3, integer=1, alpha="auto_po2"), (1, 2)), ("quantized_bits", dict(bits=6, integer=2, alpha="auto_po2"), (3, 1))]
  for i, (cls, kw, shape) in enumerate(po2s):
    try:
      po2_scale(r, i, cls, kw, shape, rng)
    except tfg.Unsupported as e:
      r.inconclusive_("cannot translate %s: %s" % (qz.cfg_str(cls, kw), e))
  structure(r, rng)
  r.discharge()
  triage(r)
  r.functions = ["quantized_bits.__call__ (auto / auto_po2 / frozen-scale branches, 5 refinement rounds)", "quantized_linear._get_auto_quantization_scale/_po2_autoscale "
                 "(StatelessWhile unrolled exactly)", "_get_least_squares_scale", "_get_scale_mean", "_clip_po2_scale"]
  r.bounds = ["final stage: every power-of-two scale 2^j, |j| <= 20, symbolic, driven through the real frozen-scale branch; |x| < 2^20 units; bits/integer lattice",
              "'auto': one channel of two symbolic elements (2^-20 <= |x| < 2^40 or 0): finite outputs and scale, positive scale unless all-zero, the "
              "element of largest magnitude reproduced up to 2^-20 relative (top code, not clipped); for quantized_linear (thorough tier) this strict form is "
              "split at |max| = 2^-12 because its step is floored at keras epsilon (the lower region is a recorded finding) and the literal 'not "
              "clipped' (within just over half a step) is decided for the whole domain",
              "'auto_po2' (quantized_bits): channels of two (thorough: three) symbolic elements; power-of-two-ness of the exposed scale by induction over "
              "the refinement rounds, each round one query with the previous working scale as a cut point constrained by the invariant "
              "'positive power of two, exponent in [%d,%d]'; quantized_linear's while-loop variant is covered for structure and 'auto' only" % (INV_LO, INV_HI),
              "one scale per channel / group: term structure on tensors of rank 1..4 (<= 8 elements)",
              "NOT covered: the scale-equivariance clause q(2^k x) = 2^k q(x) (relates two runs through Log and additive epsilon terms; only approximately true)",
              "for auto_po2 the final-stage claim is conditional on |x| < 2^20 units of the chosen scale (an outlier can be clipped by the least-squares scale)"]
  r.assumptions = ["Log / Pow contract stubs as in C03", "reductions encoded in index order; validated bit-for-bit against the kernels on the shapes used"]
  return r.finish("The property is decided by a cut at the exposed scale: (F) the final quantisation stage is proved for every admissible "
                  "power-of-two scale with the scale as a second symbolic input of the real frozen-scale branch; (A, P) what the scale can be is "
                  "proved on one channel of two symbolic elements through the full traced graph (five refinement rounds / unrolled while loop); "
                  "(S) 'one scale per channel or group' is decided on the term structure of larger tensors.")
