"""C06 - quantizers stay trainable: gradients are those of the straight-through surrogate."""
import random
import numpy as np

from .. import harness, ir, qz, lattice, tfg
from . import c03

PROP = "C06"


def gradfn(q):
  import tensorflow as tf

  def f(x):
    with tf.GradientTape() as t:
      t.watch(x)
      y = q(x)
    return t.gradient(y, x)
  return f


def kinks(cls, kw):
  """inputs at which the surrogate is not differentiable (excluded from the domain)"""
  ks = [0.0]
  if cls == "quantized_relu":
    bits, integer = kw.get("bits", 8), kw.get("integer", 0)
    nsb = bits - (1 if kw.get("negative_slope", 0.0) else 0)
    if kw.get("is_quantized_clip", True):
      ks.append(2.0 ** integer - 2.0 ** (integer - nsb))
    elif kw.get("relu_upper_bound") is not None:
      ks.append(float(kw["relu_upper_bound"]))
  if cls == "quantized_relu_po2" and kw.get("max_value") is not None:
    ks.append(float(kw["max_value"]))
  if cls == "quantized_linear":
    fmt = lattice.fixed_format(cls, kw)
    if fmt is not None:
      if fmt.get("only"):
        ks += [float(fmt["step"]), -float(fmt["step"])]
      else:
        ks += [float(fmt["lo"] * fmt["step"]), float(fmt["hi"] * fmt["step"])]
  return sorted(set(ks))


def oracle(b, cls, kw, x):
  """harness-side derivative of the documented surrogate, as an IR node over x"""
  c = b.const
  one, zero = c(1.0), c(0.0)
  f = float(kw.get("qnoise_factor", 1.0))
  ste = kw.get("use_ste", True)

  def mix(d):
    # use_ste: gradient of the surrogate; otherwise (1-f) * surrogate'
    if ste:
      return d
    k = np.float32(1.0) - np.float32(f)
    if d is one:
      return c(k)
    return b.ite(b.cmp("eq", d, zero), zero, c(k)) if d.op == "fconst" else _scale(b, d, k)

  if cls in ("quantized_bits", "quantized_po2"):
    return mix(one)
  if cls in ("binary", "ternary", "stochastic_binary", "stochastic_ternary"):
    if kw.get("alpha") is None:
      t = b.bounded("tanh", x, -1.0, 1.0)
      return b.mul(one, b.sub(one, b.mul(t, t)))
    return one
  if cls == "quantized_linear":
    fmt = lattice.fixed_format(cls, kw)
    if fmt.get("only"):
      lo, hi = -float(fmt["step"]), float(fmt["step"])
    else:
      lo, hi = float(fmt["lo"] * fmt["step"]), float(fmt["hi"] * fmt["step"])
    inside = b.b_and(b.cmp("geq", x, c(lo)), b.cmp("leq", x, c(hi)))
    # res = x + f*(xq - x): 1 inside the clip range, 1-f outside
    return b.ite(inside, one, c(np.float32(1.0) - np.float32(f)))
  if cls == "quantized_relu":
    slope = kw.get("negative_slope", 0.0)
    d = b.ite(b.cmp("gt", x, zero), one, c(slope))
    ks = kinks(cls, kw)
    if len(ks) > 1:
      d = b.ite(b.cmp("leq", x, c(ks[-1])), d, zero)
    return _scale(b, d, np.float32(1.0) - np.float32(f)) if not ste else d
  if cls == "quantized_relu_po2":
    slope = kw.get("negative_slope", 0) or 0.0
    d = b.ite(b.cmp("gt", x, zero), one, c(slope))
    if kw.get("max_value") is not None:
      d = b.ite(b.cmp("leq", x, c(float(kw["max_value"]))), d, zero)
    return _scale(b, d, np.float32(1.0) - np.float32(f)) if not ste else d
  return None


def _scale(b, d, k):
  """k * d for a piecewise-constant d (k folded into the leaves so that no rounding is introduced)"""
  if d.op == "fconst":
    return b.const(np.float32(k) * ir.bits_f32(d.attr))
  if d.op == "ite":
    return b.ite(d.args[0], _scale(b, d.args[1], k), _scale(b, d.args[2], k))
  return b.mul(b.const(k), d)


def py_oracle(cls, kw, x):
  """float evaluation of the same derivative (replay)"""
  b = ir.Builder()
  xn = b.input("x")
  d = oracle(b, cls, kw, xn)
  return tfg.concrete_env(b, [d], {"x": np.float32(x)})[d.nid]


def configs(tier, seed):
  out = []
  fx = lattice.fixed_lattice(tier, seed, classes=("quantized_bits", "quantized_linear", "quantized_relu"))
  for cls, kw in fx:
    if kw.get("use_sigmoid"):
      continue     # the sigmoid-normalised ReLU is not in the property's catalogue of surrogates
    out.append((cls, dict(kw)))
  extra = [
      ("quantized_bits", dict(bits=4, integer=1, use_ste=False, qnoise_factor=0.5)),
      ("quantized_bits", dict(bits=4, integer=1, qnoise_factor=0.5)),
      ("quantized_bits", dict(bits=4, integer=1, use_ste=False, qnoise_factor=0.0)),
      ("quantized_bits", dict(bits=4, integer=0, alpha="auto")),
      ("quantized_bits", dict(bits=4, integer=1, alpha="auto_po2")),
      ("quantized_relu", dict(bits=4, integer=1, use_ste=False, qnoise_factor=0.25)),
      ("quantized_relu", dict(bits=4, integer=1, negative_slope=0.25, qnoise_factor=0.5)),
      ("quantized_linear", dict(bits=4, integer=1, qnoise_factor=0.5)),
      ("quantized_linear", dict(bits=4, integer=1, qnoise_factor=0.0)),
      ("quantized_po2", dict(bits=4)),
      ("quantized_po2", dict(bits=6, max_value=4.0, use_ste=False, qnoise_factor=0.5)),
      ("quantized_po2", dict(bits=4, log2_rounding="floor")),
      ("quantized_relu_po2", dict(bits=4)),
      ("quantized_relu_po2", dict(bits=4, negative_slope=0.25)),
      ("quantized_relu_po2", dict(bits=4, max_value=2.0)),
      ("quantized_relu_po2", dict(bits=4, max_value=2.0, negative_slope=0.125, use_ste=False, qnoise_factor=0.5)),
      ("binary", dict(alpha=1.0)),
      ("binary", dict(alpha=0.5, use_01=True)),
      ("binary", dict()),
      ("binary", dict(alpha="auto")),
      ("binary", dict(alpha="auto_po2")),
      ("ternary", dict(alpha=1.0)),
      ("ternary", dict(alpha=2.0, threshold=0.5)),
      ("ternary", dict()),
      ("ternary", dict(alpha="auto")),
  ]
  if tier == "thorough":
    for cls, kw in c03.lattice("thorough", seed):
      if not kw.get("quadratic_approximation"):
        extra.append((cls, dict(kw)))
    for f in (0.0, 0.25, 1.0):
      for ste in (True, False):
        extra.append(("quantized_bits", dict(bits=6, integer=2, qnoise_factor=f, use_ste=ste)))
        extra.append(("quantized_relu", dict(bits=6, integer=2, negative_slope=0.125, qnoise_factor=f, use_ste=ste)))
        extra.append(("quantized_po2", dict(bits=5, qnoise_factor=f, use_ste=ste)))
  return out + extra


def one_config(run, cls, kw, rng, idx):
  import tensorflow as tf
  cfg = qz.cfg_str(cls, kw)
  q = qz.make(cls, kw)
  # data-dependent scales need rank >= 1; the gradient is still element-wise: use a 1-element tensor
  auto = isinstance(kw.get("alpha"), str)
  shape = (1,) if auto else ()
  tr = qz.Traced(q, shape, fn=gradfn(q))
  b = tr.b
  x, g = tr.xs()[0], tr.outs()[0]
  d = oracle(b, cls, kw, x)
  if d is None:
    return
  run.configs.append(cfg)
  ks = kinks(cls, kw)
  # translator validation of the gradient graph against eager autodiff
  pts = qz.interesting_points([k + e for k in ks for e in (0.25, -0.25)], rng, n_random=12 if run.quick() else 30, scale=4.0)
  pts = [p for p in pts if np.isfinite(p) and all(abs(float(p) - k) > max(2.0 ** -100, abs(k) * 2.0 ** -20) for k in ks)]
  gf = gradfn(q)
  bad = []
  for v in pts:
    xv = tf.constant(np.full(shape, v, dtype=np.float32))
    real = np.float32(np.asarray(gf(xv)).reshape(-1)[0])
    enc = tfg.concrete_env(b, [g], {x.attr: v})[g.nid]
    if not qz.evalr.same(enc, real):
      bad.append((float(v), float(enc), float(real)))
  run.validated_points += len(pts)
  run.validated_graphs += 1
  if bad:
    run.inconclusive_("translator mismatch (gradient graph) for %s: %s" % (cfg, bad[:3]))
    return
  meta = dict(cls=cls, kw=kw, clause="gradient", kinks=ks)
  if g is d:
    # identical terms: equal for every input by congruence (no solver needed)
    o = harness.solve.Obligation("%s_%03d_grad" % (PROP, idx), "(structural) gradient term identical to the oracle term", meta=dict(meta, by="hash-consing"))
    o.result = harness.solve.Result("unsat", {}, 0.0, "hash-consing")
    run.obls.append(o)
    return
  # kinks are excluded with a small neighbourhood: next to a kink the scaled input can be flushed / rounded onto it
  dom = [qz.finite_normal(x)] + [ir.L("(fp.gt (fp.abs (fp.sub RNE {0} %s)) %s)" % (ir.fp_lit(k), ir.fp_lit(max(2.0 ** -100, abs(k) * 2.0 ** -20))), x) for k in ks]
  if auto:
    dom.append(qz.abs_lt(x, 2.0 ** 40))
    dom.append(ir.L("(or (fp.isZero {0}) (fp.geq (fp.abs {0}) %s))" % ir.fp_lit(2.0 ** -40), x))
  b.close_stubs()
  neq = ir.L("(not (or (fp.eq {0} {1}) (and (fp.isNaN {0}) (fp.isNaN {1}))))", g, d)
  run.add("%03d_grad" % idx, ir.build_smt(b, dom + [neq]), meta=meta, timeout=600)
  run.add_twin("%03d_grad" % idx, ir.build_smt(b, dom + [ir.L("(= {0} {0})", g)]), meta=meta)
  fin = ir.L("(or (fp.isNaN {0}) (fp.isInfinite {0}))", g)
  run.add("%03d_finite" % idx, ir.build_smt(b, dom + [fin]), meta=dict(meta, clause="finite"), timeout=600)


# ---- data-dependent scales: the scale is a constant for the gradient (stop_gradient) --------------------------------------------
AUTO = [("quantized_linear", dict(bits=4, integer=1, symmetric=False, alpha="auto"), (2, 1)),
        ("quantized_linear", dict(bits=4, integer=0, alpha="auto"), (2, 1)),
        ("quantized_bits", dict(bits=4, integer=1, alpha="auto"), (2, 1))]


def jac_row(q, i, shape):
  import tensorflow as tf

  def f(x):
    with tf.GradientTape() as t:
      t.watch(x)
      y = tf.reshape(q(x), [-1])[i]
    return t.gradient(y, x)
  return f


def expected_jacobian(q, cls, kw, x):
  """harness-side oracle on a concrete tensor: d out_i / d x_j = [i == j] inside the clip range of quantizers that clip before
  rounding (quantized_linear), [i == j] everywhere for the straight-through quantized_bits; None marks entries too close to a kink"""
  import tensorflow as tf
  n = x.size
  xf = x.reshape(-1).astype(np.float64)
  exp = np.zeros((n, n))
  skip = np.zeros((n, n), dtype=bool)
  if cls == "quantized_bits":
    return np.eye(n), skip
  q(tf.constant(x))
  s = np.broadcast_to(np.asarray(q.quantization_scale, dtype=np.float64), x.shape).reshape(-1)
  lo, hi = [float(np.asarray(v)) for v in q.get_clip_bounds()]
  for i in range(n):
    u = xf[i] / s[i]
    if min(abs(u - lo), abs(u - hi)) < 1e-3 * max(1.0, abs(hi)):
      skip[i, :] = True
    elif lo < u < hi:
      exp[i, i] = 1.0
  return exp, skip


def real_jacobian(q, x):
  import tensorflow as tf
  n = x.size
  J = np.zeros((n, n))
  for i in range(n):
    g = jac_row(q, i, x.shape)(tf.constant(x))
    J[i] = np.zeros(n) if g is None else np.asarray(g).reshape(-1)
  return J


def auto_part(run, rng):
  import tensorflow as tf
  for ci, (cls, kw, shape) in enumerate(AUTO):
    cfg = qz.cfg_str(cls, kw) + " on %s" % (shape,)
    q = qz.make(cls, kw)
    n = int(np.prod(shape))
    # (1) structure of the gradient graph: d out_i / d x_j for i != j is the constant zero term - the scale does not carry a gradient
    structural = True
    try:
      for i in range(n):
        b = ir.Builder()
        it = tfg.Interp(b)
        cf = tfg.trace(jac_row(q, i, shape), tf.TensorSpec(shape, tf.float32))
        xin = tfg.sym_input(b, "x", shape)
        outs, _ = it.run(cf, [xin])
        row = it.lift(outs[0]).reshape(-1)
        xs = list(xin.reshape(-1))
        dom = []
        for xn in xs:
          dom += [qz.finite_normal(xn), qz.abs_lt(xn, 2.0 ** 20), ir.L("(fp.geq (fp.abs {0}) %s)" % ir.fp_lit(2.0 ** -20), xn)]
        b.close_stubs()
        for j in range(n):
          if j == i:
            continue
          if row[j].op == "fconst" and (row[j].attr & 0x7FFFFFFF) == 0:
            ob = harness.solve.Obligation("%s_J%02d_d%d_d%d" % (PROP, ci, i, j), "(structural) the Jacobian entry is the constant 0",
                                          meta=dict(cls=cls, kw=kw, clause="auto_scale_offdiagonal", entry=[i, j], by="hash-consing"))
            ob.result = harness.solve.Result("unsat", {}, 0.0, "hash-consing")
            run.obls.append(ob)
          else:
            run.add("J%02d_d%d_d%d" % (ci, i, j), ir.build_smt(b, dom + [ir.L("(not (fp.isZero {0}))", row[j])], get_values=[x_.attr + "_b" for x_ in xs]),
                    meta=dict(cls=cls, kw=kw, clause="auto_scale_offdiagonal", entry=[i, j], shape=list(shape)), timeout=900)
        run.add_twin("J%02d_row%d" % (ci, i), ir.build_smt(b, dom + [ir.L("(= {0} {0})", row[i])]), meta=dict(cls=cls, kw=kw))
    except tfg.Unsupported as e:
      structural = False
      run.aux.setdefault("auto_scale_untranslated", []).append("%s: %s" % (cfg, e))
    # (2) concrete Jacobians of the real code on probe tensors against the oracle (they confirm a structural failure and check the
    #     diagonal, whose exact value (1/s)*s is only 1 up to rounding)
    bad = None
    for t in range(8):
      x = (rng.randn(*shape) * (0.3 + t)).astype(np.float32)
      J = real_jacobian(q, x)
      E, skip = expected_jacobian(q, cls, kw, x)
      run.concrete_checks += 1
      d = np.abs(J - E)
      d[skip] = 0.0
      if np.any(d > 1e-4) or not np.all(np.isfinite(J)):
        bad = dict(x=x.tolist(), jacobian=J.tolist(), expected=E.tolist())
        break
    if bad is not None:
      run.violation(dict(clause="auto_scale_gradient", cls=cls), dict(cfg=cfg, **bad), dict(clause="auto_scale_gradient", cls=cls, kw=kw, shape=list(shape), x=bad["x"]))
    elif not structural:
      run.inconclusive_("%s: the gradient graph could not be translated and no probe tensor separates the real Jacobian from the oracle" % cfg)
    run.configs.append(cfg)


def replay_concrete(rep):
  if rep.get("clause") == "auto_scale_gradient":
    q = qz.make(rep["cls"], rep["kw"])
    x = np.asarray(rep["x"], dtype=np.float32)
    J = real_jacobian(q, x)
    E, skip = expected_jacobian(q, rep["cls"], rep["kw"], x)
    d = np.abs(J - E)
    d[skip] = 0.0
    return bool(np.any(d > 1e-4)), dict(jacobian=J.tolist(), expected=E.tolist())
  import tensorflow as tf
  cls, kw = rep["cls"], rep["kw"]
  q = qz.make(cls, kw)
  x = ir.bits_f32(rep["x_bits"])
  shape = (1,) if isinstance(kw.get("alpha"), str) else ()
  g = np.float32(np.asarray(gradfn(q)(tf.constant(np.full(shape, x, dtype=np.float32)))).reshape(-1)[0])
  want = py_oracle(cls, kw, x)
  detail = dict(x=float(x), gradient=float(g), expected=float(want), cfg=qz.cfg_str(cls, kw))
  if rep["clause"] == "finite":
    return bool(not np.isfinite(g)), detail
  return (not qz.evalr.same(g, want)), detail


def replay(body):
  ok, detail = replay_concrete(body["replay"])
  print("replay:", detail, "-> violation reproduced" if ok else "-> not reproduced")
  return ok


def triage(run):
  for o in run.obls:
    r = o.result
    if r is None:
      continue
    if o.twin:
      if r.verdict != "sat":
        run.inconclusive_("reachability twin %s is %s" % (o.oid, r.verdict))
      continue
    if r.verdict == "unsat":
      continue
    if r.verdict == "sat":
      if o.meta.get("clause") == "auto_scale_offdiagonal":
        names = sorted(k for k in r.model if k.startswith("x_") and k.endswith("_b"))
        xs = np.array([ir.bits_f32(r.model[k]) for k in names], dtype=np.float32).reshape(o.meta["shape"])
        rep = dict(clause="auto_scale_gradient", cls=o.meta["cls"], kw=o.meta["kw"], shape=o.meta["shape"], x=xs.tolist())
        ok, detail = replay_concrete(rep)
        if ok:
          run.violation(dict(clause="auto_scale_gradient", cls=o.meta["cls"]), dict(cfg=qz.cfg_str(o.meta["cls"], o.meta["kw"]), x=xs.tolist(), **detail), rep)
        else:
          run.inconclusive_("counterexample of %s does not reproduce on the real code: %s" % (o.oid, str(detail)[:200]))
        continue
      rep = dict(cls=o.meta["cls"], kw=o.meta["kw"], clause=o.meta["clause"], x_bits=r.model.get("x_b", r.model.get("x_0_b")))
      ok, detail = replay_concrete(rep)
      if ok:
        run.violation(dict(cls=o.meta["cls"], clause=o.meta["clause"], use_ste=o.meta["kw"].get("use_ste", True)), detail, rep)
      else:
        run.inconclusive_("counterexample of %s does not reproduce on the real code: %s" % (o.oid, detail))
    else:
      run.inconclusive_("%s: solver answered %s %s" % (o.oid, r.verdict, r.raw[-300:]))


def run(tier, seed):
  r = harness.Run(PROP, "model_checking", tier, seed)
  rng = np.random.RandomState(seed)
  cfgs = configs(tier, seed)
  r.functions = ["TF autodiff graph of quantized_bits/quantized_linear/quantized_relu/quantized_po2/quantized_relu_po2/binary/ternary.__call__ "
                 "(_round_through, _sign_through, _floor_through, stop_gradient residuals, use_ste/non-STE mixing expressions)"]
  r.bounds = ["%d configurations; the input is one symbolic float32 (all finite non-subnormal values except the listed kinks of the surrogate)" % len(cfgs),
              "data-dependent scales ('auto', 'auto_po2'): one-element tensor, 2^-40 <= |x| < 2^40",
              "data-dependent scales on two-element tensors (quantized_linear / quantized_bits, alpha='auto'): every off-diagonal entry of the "
              "Jacobian is zero for all inputs with 2^-20 <= |x_k| < 2^20 (QF_BVFP query on the traced gradient graph: the scale carries no gradient); the "
              "diagonal is compared with the oracle on 8 probe tensors per configuration (auxiliary, concrete: (1/s)*s is 1 only up to rounding)",
              "quantized_tanh/quantized_sigmoid/ulaw/hswish/bernoulli and the sigmoid-normalised ReLU are not in the property's catalogue and are not covered"]
  r.assumptions = ["gradient graphs are produced by TensorFlow autodiff from the real forward code and translated op by op "
                   "(ReluGrad, LeakyReluGrad, TanhGrad, Select, Minimum/Maximum gradients...)",
                   "Tanh kernel: contract stub shared between the gradient graph and the oracle term",
                   "kinks (x = 0, clip edges) are excluded together with a neighbourhood of relative size 2^-20 (absolute 2^-100 at 0): the surrogate "
                   "is not differentiable there and the scaled input may be flushed or rounded onto the kink"]
  for i, (cls, kw) in enumerate(cfgs):
    try:
      one_config(r, cls, kw, rng, i)
    except tfg.Unsupported as e:
      r.inconclusive_("cannot translate gradient graph of %s: %s" % (qz.cfg_str(cls, kw), e))
  try:
    auto_part(r, rng)
  except Exception as e:  # pylint: disable=broad-except
    import traceback
    traceback.print_exc()
    r.inconclusive_("harness error in the auto-scale Jacobian part: %r" % (e,))
  r.discharge()
  triage(r)
  return r.finish("For every configuration the function x -> d q(x)/dx is traced through tf.GradientTape (so the graph comes from TensorFlow's "
                  "autodiff of the real forward code), translated, and compared for all inputs with the derivative of the documented "
                  "surrogate; identical terms are discharged by hash-consing, the rest by a QF_BVFP query; a finiteness query accompanies "
                  "each.  Counterexamples are replayed with eager GradientTape.")
