"""C02 - fixed-point quantization is the nearest-code projection (round, clip, monotone, idempotent)."""
from fractions import Fraction
import numpy as np

from .. import harness, ir, qz, lattice, tfg
from . import c01

PROP = "C02"
TOL_LOG2 = 12     # tolerance on "nearest": step * 2^-12 (absorbs float rounding of the surrogate itself)


def surrogate(b, cls, kw, x):
  """Harness-side specification of the unquantized activation, built with the same IR ops.
  returns (node u, grid multiplier) or None when C02 does not define one for this configuration."""
  c = b.const
  if cls in ("quantized_bits", "quantized_linear"):
    return x, 1
  if cls == "quantized_relu":
    slope = kw.get("negative_slope", 0.0)
    if kw.get("use_sigmoid"):
      if slope:
        return None
      m_i = 2.0 ** kw.get("integer", 0)
      hs = b.fmin(b.fmax(b.add(b.mul(c(0.5), b.div(x, c(m_i))), c(0.5)), c(0.0)), c(1.0))
      return b.mul(c(m_i), b.sub(b.mul(c(2.0), hs), c(1.0))), 2
    if slope:
      return b.ite(b.cmp("gt", x, c(0.0)), x, b.mul(x, c(slope))), 1
    return b.fmax(x, c(0.0)), 1
  if cls == "quantized_tanh":
    if kw.get("use_real_tanh"):
      return b.bounded("tanh", x, -1.0, 1.0), 1
    hs = b.fmin(b.fmax(b.add(b.mul(c(0.5), x), c(0.5)), c(0.0)), c(1.0))
    return b.sub(b.mul(c(2.0), hs), c(1.0)), 1
  if cls == "quantized_sigmoid":
    if kw.get("use_real_sigmoid"):
      return b.bounded("sigmoid", x, 0.0, 1.0), 1
    return b.fmin(b.fmax(b.add(b.mul(c(0.5), x), c(0.5)), c(0.0)), c(1.0)), 1
  return None


def nearest_violation(o, u, fmt, grid):
  step = float(fmt["step"])
  h = step * grid / 2 + step * 2.0 ** -TOL_LOG2
  tol = step * 2.0 ** -TOL_LOG2
  lo, hi = float(fmt["lo"] * fmt["step"]), float(fmt["hi"] * fmt["step"])
  L = ir.fp_lit
  # inside: |o-u| <= h ; u >= hi - tol may give hi ; u <= lo + tol may give lo
  good = ("(or (and (fp.leq (fp.sub RNE {0} %s) {1}) (fp.leq {1} (fp.add RNE {0} %s)))"
          " (and (fp.geq {1} %s) (fp.eq {0} %s))"
          " (and (fp.leq {1} %s) (fp.eq {0} %s)))") % (L(h), L(h), L(hi - tol), L(hi), L(lo + tol), L(lo))
  return ir.L("(not %s)" % good, o, u)


def exact_nearest(outv, uv, fmt, grid):
  o, u = Fraction(float(outv)), Fraction(float(uv))
  step = fmt["step"]
  tol = step / 2 ** TOL_LOG2
  lo, hi = fmt["lo"] * step, fmt["hi"] * step
  if abs(o - u) <= step * grid / 2 + tol:
    return None
  if u >= hi - tol and o == hi:
    return None
  if u <= lo + tol and o == lo:
    return None
  return "output %r is not the nearest code to the surrogate %r (step %s)" % (float(outv), float(uv), step)


def is_code(x, fmt):
  step = float(fmt["step"])
  inv = ir.fp_lit(1.0 / step)
  return ir.L("(and (fp.eq (fp.roundToIntegral RNE (fp.mul RNE {0} %s)) (fp.mul RNE {0} %s)) (fp.leq %s {0}) (fp.leq {0} %s))" % (
      inv, inv, ir.fp_lit(float(fmt["lo"] * fmt["step"])), ir.fp_lit(float(fmt["hi"] * fmt["step"]))), x)


def one_config(run, cls, kw, rng, idx, mono):
  fmt = lattice.fixed_format(cls, kw)
  cfg = qz.cfg_str(cls, kw)
  q = qz.make(cls, kw)
  tr = qz.Traced(q, ())
  b = tr.b
  x, o = tr.xs()[0], tr.outs()[0]
  pts = qz.interesting_points(c01.breakpoints(fmt), rng, n_random=16 if run.quick() else 40, scale=float(fmt["step"] * max(4, fmt["hi"])))
  bad = qz.validate_scalar(tr, q, pts)
  run.validated_points += len(pts)
  run.validated_graphs += 1
  if bad:
    run.inconclusive_("translator mismatch for %s: %s" % (cfg, bad[:3]))
    return
  run.configs.append(cfg)
  dom = c01.domain(x, fmt)
  meta = dict(cls=cls, kw=kw, step=str(fmt["step"]), lo=fmt["lo"], hi=fmt["hi"])
  sg = surrogate(b, cls, kw, x)
  sign_mode = bool(fmt.get("only"))
  if sg is not None and not sign_mode:
    u, grid = sg
    b.close_stubs()
    m = dict(meta, clause="nearest", grid=grid)
    run.add("%03d_nearest" % idx, ir.build_smt(b, dom + [ir.L("(or {0} {1})", c01.code_violation(o, fmt), nearest_violation(o, u, fmt, grid))]),
            meta=m)
    run.add_twin("%03d_nearest" % idx, ir.build_smt(b, dom + [ir.L("(= {0} {0})", o), ir.L("(= {0} {0})", u)]), meta=m)
  elif sign_mode:
    # one-bit signed formats: the two codes are +-c; nearest = sign with zero mapped to +c (ties either way at 0)
    cval = float(fmt["step"])
    near0 = float(fmt["step"]) / 2 if cls == "quantized_linear" else 0.0
    m = dict(meta, clause="nearest_sign")
    cond = "(fp.geq (fp.abs {1}) %s)" % ir.fp_lit(near0) if near0 else "true"
    good = "(and (=> (fp.gt {1} %s) (fp.eq {0} %s)) (=> (fp.lt {1} %s) (fp.eq {0} %s)))" % (ir.PZ, ir.fp_lit(cval), ir.PZ, ir.fp_lit(-cval))
    run.add("%03d_nearest" % idx, ir.build_smt(b, dom + [ir.L("(and %s (not %s))" % (cond, good), o, x)]), meta=m)
    run.add_twin("%03d_nearest" % idx, ir.build_smt(b, dom + [ir.L("(= {0} {0})", o)]), meta=m)
  a = kw.get("alpha")
  if cls == "quantized_bits" and a not in (None, 1, 1.0) and not sign_mode:
    # legacy semantics with a constant scale: out = alpha * Q(x) (x is not divided by alpha), recorded as a finding
    # for the clauses above; this clause pins the actual behaviour so that other changes in this region are still seen
    m = dict(meta, clause="nearest_of_scaled_input")
    ua = b.mul(x, b.const(float(a)))
    run.add("%03d_nearest_si" % idx, ir.build_smt(b, dom + [ir.L("(or {0} {1})", c01.code_violation(o, fmt), nearest_violation(o, ua, fmt, 1))]), meta=m)
  # idempotence: in-range codes are fixed points (linear and plain ReLU formats, data-independent scale)
  plain_relu = cls == "quantized_relu" and not kw.get("use_sigmoid") and not kw.get("negative_slope")
  if cls in ("quantized_bits", "quantized_linear") or plain_relu:
    m = dict(meta, clause="fixed_point")
    if sign_mode:
      pre = ir.L("(or (fp.eq {0} %s) (fp.eq {0} %s))" % (ir.fp_lit(float(fmt["step"])), ir.fp_lit(-float(fmt["step"]))), x)
    else:
      pre = is_code(x, fmt)
    run.add("%03d_fixpt" % idx, ir.build_smt(b, [qz.finite_normal(x), pre, ir.L("(not (fp.eq {0} {1}))", o, x)]), meta=m)
    run.add_twin("%03d_fixpt" % idx, ir.build_smt(b, [qz.finite_normal(x), pre, ir.L("(= {0} {0})", o)]), meta=m)
  if mono:
    tr2 = qz.Traced(q, (), name="y", builder=b)
    y, oy = tr2.xs()[0], tr2.outs()[0]
    b.close_stubs()
    m = dict(meta, clause="monotone")
    d2 = dom + c01.domain(y, fmt)
    run.add("%03d_mono" % idx, ir.build_smt(b, d2 + [ir.L("(and (fp.leq {0} {1}) (fp.gt {2} {3}))", x, y, o, oy)]), meta=m,
            timeout=3000)
    run.add_twin("%03d_mono" % idx, ir.build_smt(b, d2 + [ir.L("(and (fp.lt {0} {1}) (= {2} {2}) (= {3} {3}))", x, y, o, oy)]), meta=m)


SIGMOID_MODES = [("smooth", "quantized_tanh", dict(bits=4)), ("real", "quantized_tanh", dict(bits=4)), ("smooth", "quantized_sigmoid", dict(bits=4))]


def sigmoid_modes(run, rng):
  """qkeras.set_internal_sigmoid(mode) is a process-wide option: quantized_tanh / quantized_sigmoid (not use_real_*) then quantize
  2*_sigmoid(x)-1 / _sigmoid(x) for the selected internal sigmoid.  The surrogate is traced from the library's own _sigmoid in the
  same term store, so the clause is: the output is the nearest code to *that* activation (default mode 'hard' is the main lattice)"""
  import qkeras.quantizers as QZ
  for mi, (mode, cls, kw) in enumerate(SIGMOID_MODES if not run.quick() else SIGMOID_MODES[:2]):
    QZ.set_internal_sigmoid(mode)
    try:
      fmt = lattice.fixed_format(cls, kw)
      cfg = "%s [internal sigmoid: %s]" % (qz.cfg_str(cls, kw), mode)
      q = qz.make(cls, kw)
      tr = qz.Traced(q, ())
      b = tr.b
      x, o = tr.xs()[0], tr.outs()[0]
      sfn = (lambda t: 2.0 * QZ._sigmoid(t) - 1.0) if cls == "quantized_tanh" else (lambda t: QZ._sigmoid(t))
      ts = qz.Traced(None, (), builder=b, fn=sfn)
      u = ts.outs()[0]
      pts = qz.interesting_points(c01.breakpoints(fmt), rng, n_random=16, scale=3.0)
      bad = qz.validate_scalar(tr, q, pts)
      run.validated_points += len(pts)
      run.validated_graphs += 1
      if bad:
        run.inconclusive_("translator mismatch for %s: %s" % (cfg, bad[:3]))
        continue
      run.configs.append(cfg)
      b.close_stubs()
      dom = c01.domain(x, fmt)
      m = dict(cls=cls, kw=kw, step=str(fmt["step"]), lo=fmt["lo"], hi=fmt["hi"], clause="nearest", grid=1, sigmoid_mode=mode)
      run.add("S%02d_nearest" % mi, ir.build_smt(b, dom + [ir.L("(or {0} {1})", c01.code_violation(o, fmt), nearest_violation(o, u, fmt, 1))]), meta=m)
      run.add_twin("S%02d_nearest" % mi, ir.build_smt(b, dom + [ir.L("(= {0} {0})", o), ir.L("(= {0} {0})", u)]), meta=m)
    finally:
      QZ.set_internal_sigmoid("hard")


def replay_concrete(rep):
  import tensorflow as tf
  cls, kw, clause = rep["cls"], rep["kw"], rep["clause"]
  if rep.get("sigmoid_mode"):
    import qkeras.quantizers as QZ
    QZ.set_internal_sigmoid(rep["sigmoid_mode"])
    try:
      fmt = lattice.fixed_format(cls, kw)
      q = qz.make(cls, kw)
      x = ir.bits_f32(rep["x_bits"])
      out = np.float32(np.asarray(q(tf.constant(np.float32(x), tf.float32))).reshape(-1)[0])
      s = np.float32(np.asarray(QZ._sigmoid(tf.constant(np.float32(x), tf.float32))).reshape(-1)[0])
      uv = np.float32(np.float32(2.0) * s - np.float32(1.0)) if cls == "quantized_tanh" else s
      why = c01.exact_check(out, fmt) or exact_nearest(out, uv, fmt, 1)
      return why is not None, dict(x=float(x), out=float(out), surrogate=float(uv), sigmoid_mode=rep["sigmoid_mode"], cfg=qz.cfg_str(cls, kw), why=why)
    finally:
      QZ.set_internal_sigmoid("hard")
  fmt = lattice.fixed_format(cls, kw)
  q = qz.make(cls, kw)
  call = lambda v: np.float32(np.asarray(q(tf.constant(np.float32(v), tf.float32))).reshape(-1)[0])
  x = ir.bits_f32(rep["x_bits"])
  out = call(x)
  detail = dict(x=float(x), out=float(out), cfg=qz.cfg_str(cls, kw), clause=clause)
  if clause in ("nearest", "nearest_of_scaled_input"):
    why = c01.exact_check(out, fmt)
    if why is None:
      b = ir.Builder()
      xn = b.input("x")
      if clause == "nearest":
        u, grid = surrogate(b, cls, kw, xn)
      else:
        u, grid = b.mul(xn, b.const(float(kw["alpha"]))), 1
      uv = tfg.concrete_env(b, [u], {"x": x})[u.nid]
      detail["surrogate"] = float(uv)
      why = exact_nearest(out, uv, fmt, grid)
    detail["why"] = why
    return why is not None, detail
  if clause == "nearest_sign":
    c = float(fmt["step"])
    bad = (x > 0 and out != c) or (x < 0 and out != -c)
    return bool(bad), detail
  if clause == "fixed_point":
    return bool(out != x), detail
  if clause == "monotone":
    y = ir.bits_f32(rep["y_bits"])
    oy = call(y)
    detail.update(y=float(y), out_y=float(oy))
    return bool(x <= y and out > oy), detail
  return False, detail


def replay(body):
  ok, detail = replay_concrete(body["replay"])
  print("replay:", detail, "-> violation reproduced" if ok else "-> not reproduced")
  return ok


def triage(run):
  for o in run.obls:
    r = o.result
    if r is None:
      continue
    if o.twin:
      if r.verdict != "sat":
        run.inconclusive_("reachability twin %s is %s" % (o.oid, r.verdict))
      continue
    if r.verdict == "unsat":
      continue
    if r.verdict == "sat":
      rep = dict(cls=o.meta["cls"], kw=o.meta["kw"], clause=o.meta["clause"], x_bits=r.model.get("x_b"), y_bits=r.model.get("y_b"))
      if o.meta.get("sigmoid_mode"):
        rep["sigmoid_mode"] = o.meta["sigmoid_mode"]
      if rep["x_bits"] is None:
        run.inconclusive_("%s: sat without model" % o.oid)
        continue
      ok, detail = replay_concrete(rep)
      if ok:
        sig = c01.sig_of(o.meta["cls"], o.meta["kw"], o.meta["clause"])
        run.violation(sig, detail, rep)
      else:
        run.inconclusive_("counterexample of %s does not reproduce on the real code: %s" % (o.oid, detail))
    else:
      run.inconclusive_("%s: solver answered %s %s" % (o.oid, r.verdict, r.raw[-300:]))


MONO_QUICK = [
    ("quantized_bits", dict(bits=4, integer=1, symmetric=0, keep_negative=True)),
    ("quantized_relu", dict(bits=3, integer=1, negative_slope=0.25)),
    ("quantized_linear", dict(bits=3, integer=0, symmetric=1, keep_negative=True)),
    ("quantized_tanh", dict(bits=3, symmetric=False, use_real_tanh=False)),
]


def run(tier, seed):
  r = harness.Run(PROP, "model_checking", tier, seed)
  rng = np.random.RandomState(seed)
  cfgs = lattice.fixed_lattice(tier, seed)
  if tier == "quick":
    mono = MONO_QUICK
  else:
    import random
    rr = random.Random(seed)
    pool = [c for c in cfgs if c[1].get("bits", 8) <= 6 and not c[1].get("use_real_tanh") and not c[1].get("use_real_sigmoid")]
    rr.shuffle(pool)
    mono = MONO_QUICK + pool[:44]
  try:
    sigmoid_modes(r, rng)
  except tfg.Unsupported as e:
    r.inconclusive_("cannot translate a sigmoid-mode configuration: %s" % (e,))
  r.functions = ["qkeras.quantizers._round_through", "quantized_bits.__call__", "quantized_linear._scale_clip_and_round",
                 "quantized_relu.__call__", "quantized_tanh.__call__", "quantized_sigmoid.__call__"]
  r.bounds = ["lattice of C01 (%d configurations this run); input = one symbolic float32 below 2^24 steps" % len(cfgs),
              "'nearest' is stated against a harness-side surrogate with tolerance step*2^-%d (float rounding of the surrogate); "
              "ties either way" % TOL_LOG2,
              "monotonicity: direct two-copy query on %d configurations (bits <= 6); idempotence: 'every in-range code is a fixed point' "
              "for linear / plain-ReLU formats, combined with the code-membership clause proved in the same query set" % len(mono),
              "process-wide internal sigmoid (set_internal_sigmoid 'smooth' / 'real'): quantized_tanh / quantized_sigmoid(bits=4) are the nearest code "
              "to the activation built from the library's own _sigmoid, traced into the same term store (the main lattice runs in the default 'hard' mode)",
              "quantized_relu(use_sigmoid=1): reachable codes are every other code, nearest is stated on the 2*step grid; "
              "use_sigmoid with a leaky slope is outside the claim"]
  r.assumptions = ["platform model and contract stubs as in C01",
                   "the real tanh/sigmoid kernels of the pinned TensorFlow are not monotone at the ulp level (measured), so the "
                   "monotonicity clause is only claimed for the piece-wise linear (hard) surrogates and the linear/ReLU formats"]
  for i, (cls, kw) in enumerate(cfgs):
    try:
      one_config(r, cls, kw, rng, i, mono=(cls, kw) in mono)
    except tfg.Unsupported as e:
      r.inconclusive_("cannot translate %s: %s" % (qz.cfg_str(cls, kw), e))
  for j, (cls, kw) in enumerate(mono):
    if (cls, kw) not in cfgs:
      one_config(r, cls, kw, rng, 900 + j, mono=True)
  r.discharge()
  triage(r)
  return r.finish("Per configuration: (nearest) every output is an in-range code within half a grid step of the surrogate, or the end "
                  "code beyond the range; (fixed_point) every in-range code is returned unchanged; (monotone) two symbolic inputs "
                  "x<=y never give out(x)>out(y).  All three are QF_BVFP queries over the traced graph; counterexamples are replayed.")
