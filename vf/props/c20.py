"""C20 - AutoQKeras: forgiving-factor bonus, the size model and the hyper-model's search space (engine B).
keras-tuner cannot be imported under the pinned environment (it needs tensorflow.keras.layers.experimental): the names
qkeras.autoqkeras_internal imports from it are supplied as an environment stub and the tuner's `hp` object is the
nondeterministic stub of the search (any element of the offered list)."""
import importlib
import os
import sys
import types
import numpy as np
import z3

from .. import harness, pysym
from ..pysym import SymInt, SymReal, SymBool, lift

PROP = "C20"


def _ensure_tuner():
  """keras_tuner cannot be imported under the pinned environment: environment stub with the four names qkeras imports"""
  try:
    import keras_tuner  # noqa: F401  pylint: disable=unused-import
    return False
  except Exception:  # pylint: disable=broad-except
    for k in [k for k in sys.modules if k == "keras_tuner" or k.startswith("keras_tuner.")]:
      del sys.modules[k]
    kt = types.ModuleType("keras_tuner")

    class HyperModel(object):
      def __init__(self, *a, **k):
        pass
    kt.HyperModel = HyperModel
    for n in ("BayesianOptimization", "Hyperband", "RandomSearch"):
      setattr(kt, n, type(n, (object,), {}))
    kt.__vf_stub__ = True
    sys.modules["keras_tuner"] = kt
    return True


def load_modules():
  """forgiving_factor / forgiving_bits modules (the real qkeras.autoqkeras package, with keras_tuner stubbed if it cannot be imported)"""
  _ensure_tuner()
  ff = importlib.import_module("qkeras.autoqkeras.forgiving_metrics.forgiving_factor")
  fb = importlib.import_module("qkeras.autoqkeras.forgiving_metrics.forgiving_bits")
  return ff, fb


def load_hypermodel():
  load_modules()
  kt = sys.modules.get("keras_tuner")
  return importlib.import_module("qkeras.autoqkeras.autoqkeras_internal"), bool(getattr(kt, "__vf_stub__", False))


class ChoiceExhausted(Exception):
  pass


class SymHP(object):
  """the tuner as a nondeterministic stub: Choice returns *any* element of the offered list (one path per element)"""

  def __init__(self):
    self.log = []
    self.n = 0

  def Choice(self, name, values, **k):
    values = list(values)
    if not values:
      raise ChoiceExhausted(name)
    self.n += 1
    j = z3.Int("choice_%d" % self.n)
    pysym.fact(z3.And(j >= 0, j < len(values)))
    for idx in range(len(values) - 1):
      if SymBool(j == idx):
        self.log.append((name, values[idx], values))
        return values[idx]
    self.log.append((name, values[-1], values))
    return values[-1]

  def Fixed(self, name, value, **k):
    self.log.append((name, value, [value]))
    return value


def search_part(run):
  """AutoQKHyperModel._get_quantizer on a symbolic quantization configuration and symbolic limits"""
  aq, stubbed = load_hypermodel()
  run.aux["keras_tuner_stubbed"] = stubbed
  S = SymInt
  kb = z3.Ints("kbits0 kbits1 kbits2")
  bb = z3.Ints("bbits0 bbits1")
  ab = z3.Ints("abits0 abits1 abits2")
  lk, lb, la, pk = z3.Ints("limit_kernel limit_bias limit_activation limit_pattern_kernel")
  allv = list(kb) + list(bb) + list(ab) + [lk, lb, la, pk]
  base = [z3.And(v >= 1, v <= 32) for v in allv]

  def hyper():
    hm = aq.AutoQKHyperModel.__new__(aq.AutoQKHyperModel)
    hm.quantization_config = {
        "kernel": {"k0": S(kb[0]), "k1": S(kb[1]), "k2": S(kb[2])}, "bias": {"b0": S(bb[0]), "b1": S(bb[1])},
        "activation": {"a0": S(ab[0]), "a1": S(ab[1]), "a2": S(ab[2])}, "linear": {"l0": S(kb[0])},
        "pointwise_kernel": {"k0": S(kb[0]), "k1": S(kb[1])}, "recurrent_kernel": {"k0": S(kb[0])}, "recurrent_activation": {"a0": S(ab[0])}}
    hm.limit = {"Dense": [S(lk), S(lb), S(la)], "Conv2D": [["k0", "k2"], S(lb), S(la)], "^blk_.*": [S(pk), S(lb), S(la)],
                # a later, more general pattern that also matches "blk_1": the first matching entry decides
                "^b.*": [S(lk), S(lb), S(la)]}
    hm.groups = {}
    return hm
  cfgbits = dict(k0=kb[0], k1=kb[1], k2=kb[2], b0=bb[0], b1=bb[1], a0=ab[0], a1=ab[1], a2=ab[2])
  cases = [
      ("dense_kernel", "d1_kernel", "d1", "Dense", lk, None), ("dense_bias", "d1_bias", "d1", "Dense", lb, None), ("dense_activation", "d1_activation", "d1", "Dense", la, None),
      ("conv_kernel_list", "c1_kernel", "c1", "Conv2D", None, ["k0", "k2"]), ("pattern_kernel", "blk_1_kernel", "blk_1", "Conv2D", pk, None),
      ("outside", "x_kernel", "x", "DepthwiseConv2D", None, None),
  ]
  for cname, head, lname, lclass, limit, allowed in cases:
    def fn(head=head, lname=lname, lclass=lclass):
      hm = hyper()
      hp = SymHP()
      try:
        res = hm._get_quantizer(hp, head, lname, lclass)
      except ChoiceExhausted:
        return "exhausted", None, hp.log
      return "ok", res, hp.log
    with pysym.shadow(aq):
      paths, limits = pysym.explore(fn, base=base, max_paths=512)
    for pc, why in limits:
      run.inconclusive_("path limit in _get_quantizer(%s): %s" % (cname, why))
    for pi, (pc, (kind, res, log), facts) in enumerate(paths):
      if kind == "exhausted":
        # nothing fits the limit: the tuner is offered an empty list (it rejects it); no quantizer is chosen on this path
        bad = z3.BoolVal(False)
      elif cname == "outside":
        bad = z3.BoolVal(not (res[0] is None and res[1] == -1))
      else:
        qn, bits = res
        ok_name = qn in cfgbits
        if not ok_name:
          bad = z3.BoolVal(True)
        else:
          conds = [lift(bits) != cfgbits[qn]]
          if limit is not None:
            conds.append(cfgbits[qn] > limit)
          if allowed is not None:
            conds.append(z3.BoolVal(qn not in allowed))
          bad = z3.Or(*conds)
      v, mdl = harness.z3_query(run, "search_%s_p%d" % (cname, pi), list(pc), [bad], dict(clause="search_space", case=cname))
      if mdl is not None:
        ok, detail = replay_search(cname, mdl)
        if ok:
          run.violation(dict(clause="search_space", case=cname), detail, dict(clause="search_space", case=cname, model=mdl))
        else:
          run.inconclusive_("search-space counterexample (%s) does not reproduce on the real code: %s" % (cname, str(detail)[:300]))
    run.configs.append("search:%s (%d paths)" % (cname, len(paths)))
  # layers grouped by a pattern share one choice: the second layer matching the pattern gets the first one's quantizer
  def grouped():
    hm = hyper()
    hp = SymHP()
    try:
      r1 = hm._get_quantizer(hp, "blk_1_kernel", "blk_1", "Conv2D")
      n1 = hp.n
      r2 = hm._get_quantizer(hp, "blk_2_kernel", "blk_2", "Conv2D")
    except ChoiceExhausted:
      return None
    return r1, r2, n1, hp.n
  with pysym.shadow(aq):
    paths, limits = pysym.explore(grouped, base=base, max_paths=512)
  for pc, why in limits:
    run.inconclusive_("path limit in the grouping case: %s" % why)
  for pi, (pc, res, facts) in enumerate(paths):
    if res is None:
      continue
    r1, r2, n1, n2 = res
    bad = z3.Or(z3.BoolVal(r1[0] != r2[0]), lift(r1[1]) != lift(r2[1]), z3.BoolVal(n2 != n1))
    v, mdl = harness.z3_query(run, "search_group_p%d" % pi, list(pc), [bad], dict(clause="search_space", case="pattern_group"))
    if mdl is not None:
      ok, detail = replay_search("pattern_group", mdl)
      if ok:
        run.violation(dict(clause="search_space", case="pattern_group"), detail, dict(clause="search_space", case="pattern_group", model=mdl))
      else:
        run.inconclusive_("search-space counterexample (pattern_group) does not reproduce on the real code: %s" % (str(detail)[:300],))
  run.configs.append("search:pattern_group (%d paths)" % len(paths))


SEARCH_CASES = {
    "dense_kernel": ("d1_kernel", "d1", "Dense", "limit_kernel", None), "dense_bias": ("d1_bias", "d1", "Dense", "limit_bias", None),
    "dense_activation": ("d1_activation", "d1", "Dense", "limit_activation", None), "conv_kernel_list": ("c1_kernel", "c1", "Conv2D", None, ["k0", "k2"]),
    "pattern_kernel": ("blk_1_kernel", "blk_1", "Conv2D", "limit_pattern_kernel", None), "outside": ("x_kernel", "x", "DepthwiseConv2D", None, None),
}


def replay_search(cname, mdl):
  """the solver's bit widths, limits and tuner choices on the real _get_quantizer, with plain Python ints"""
  aq, _ = load_hypermodel()
  g = lambda k, d=1: int(mdl.get(k, d))
  kb = [g("kbits%d" % i) for i in range(3)]
  bb = [g("bbits%d" % i) for i in range(2)]
  ab = [g("abits%d" % i) for i in range(3)]
  lim = dict(limit_kernel=g("limit_kernel"), limit_bias=g("limit_bias"), limit_activation=g("limit_activation"), limit_pattern_kernel=g("limit_pattern_kernel"))
  cfg = {"kernel": {"k0": kb[0], "k1": kb[1], "k2": kb[2]}, "bias": {"b0": bb[0], "b1": bb[1]}, "activation": {"a0": ab[0], "a1": ab[1], "a2": ab[2]},
         "linear": {"l0": kb[0]}, "pointwise_kernel": {"k0": kb[0], "k1": kb[1]}, "recurrent_kernel": {"k0": kb[0]}, "recurrent_activation": {"a0": ab[0]}}
  hm = aq.AutoQKHyperModel.__new__(aq.AutoQKHyperModel)
  hm.quantization_config = cfg
  hm.limit = {"Dense": [lim["limit_kernel"], lim["limit_bias"], lim["limit_activation"]], "Conv2D": [["k0", "k2"], lim["limit_bias"], lim["limit_activation"]],
              "^blk_.*": [lim["limit_pattern_kernel"], lim["limit_bias"], lim["limit_activation"]],
              "^b.*": [lim["limit_kernel"], lim["limit_bias"], lim["limit_activation"]]}
  hm.groups = {}
  hp = ScriptHP([g("choice_%d" % i, 0) for i in range(1, 5)])
  allbits = dict(k0=kb[0], k1=kb[1], k2=kb[2], b0=bb[0], b1=bb[1], a0=ab[0], a1=ab[1], a2=ab[2])
  try:
    if cname == "pattern_group":
      r1 = hm._get_quantizer(hp, "blk_1_kernel", "blk_1", "Conv2D")
      n1 = len(hp.points)
      r2 = hm._get_quantizer(hp, "blk_2_kernel", "blk_2", "Conv2D")
      return bool(r1 != r2 or len(hp.points) != n1), dict(first=str(r1), second=str(r2), tuner_variables=len(hp.points), config=cfg, limit=lim)
    head, lname, lclass, lkey, allowed = SEARCH_CASES[cname]
    res = hm._get_quantizer(hp, head, lname, lclass)
  except IndexError as e:
    return False, dict(note="empty choice list: %r" % (e,))
  detail = dict(result=str(res), config=cfg, limit=lim)
  if cname == "outside":
    return not (res[0] is None and res[1] == -1), detail
  qn, bits = res
  bad = qn not in allbits or bits != allbits[qn] or (lkey is not None and allbits[qn] > lim[lkey]) or (allowed is not None and qn not in allowed)
  return bool(bad), detail


class ScriptHP(object):
  """concrete tuner stub following a script of choice indexes; records the choice points met (for exhaustive enumeration)"""

  def __init__(self, script):
    self.script, self.points = list(script), []

  def Choice(self, name, values, **k):
    values = list(values)
    i = len(self.points)
    idx = self.script[i] if i < len(self.script) else 0
    self.points.append((name, values))
    return values[idx]

  def Fixed(self, name, value, **k):
    return value

  def Float(self, name, lo, hi, **k):
    return lo


QCFG = {
    "kernel": {"binary": 1, "quantized_bits(2,1,1,alpha=1.0)": 2, "quantized_bits(4,0,1)": 4, "quantized_bits(8,0,1)": 8},
    "bias": {"quantized_bits(4,0,1)": 4, "quantized_bits(8,3,1)": 8},
    "activation": {"quantized_relu(3,1)": 3, "quantized_relu(4,2)": 4, "quantized_relu(8,4)": 8},
    "linear": {"quantized_bits(8,0,1)": 8},
}


def trials_part(run):
  """auxiliary, exhaustive within its bound: every hyper-parameter assignment of four small search spaces is run through the
  real AutoQKHyperModel.quantize_model and the trial model is inspected"""
  import copy
  import tensorflow.keras as keras
  aq, _ = load_hypermodel()
  ff, fb = load_modules()
  from qkeras.autoqkeras.forgiving_metrics import forgiving_factor

  def ref_model():
    i = keras.Input((4,))
    y = keras.layers.Dense(3, name="d1")(i)
    y = keras.layers.Activation("relu", name="a1")(y)
    y = keras.layers.Dense(2, name="d2")(y)
    y = keras.layers.Activation("softmax", name="sm")(y)
    return keras.Model(i, y)
  spaces = [
      ("class_limits", {"Dense": [4, 4, 4], "Activation": [4]}, None),
      ("activation_outside", {"Dense": [2, 8, 8]}, None),
      ("layer_indexes", {"Dense": [4, 4, 4], "Activation": [4]}, [1, 2]),
      ("pattern_group", {"^d.*": [4, 8, 8], "Dense": [8, 8, 8], "Activation": [8]}, None),
  ]
  total = 0
  for sname, limit, idxs in spaces:
    model = ref_model()
    target = forgiving_factor["bits"](8, 8, 2.0, stress=1.0, input_bits=8, output_bits=8, ref_bits=8, config={"default": ["parameters", "activations"]})
    try:
      hm = aq.AutoQKHyperModel(model, ["acc"], target=target, limit=copy.deepcopy(limit), tune_filters="none", tune_filters_exceptions="",
                               layer_indexes=idxs, quantization_config=copy.deepcopy(QCFG))
    except Exception as e:  # pylint: disable=broad-except
      run.inconclusive_("AutoQKHyperModel cannot be constructed for %s: %r" % (sname, e))
      continue
    script = []
    ntr = 0
    while True:
      hp = ScriptHP(script)
      hm.groups = {}
      try:
        qm, _ = hm.quantize_model(hp)
      except Exception as e:  # pylint: disable=broad-except
        run.violation(dict(clause="trial_raises", space=sname), dict(script=script, error=repr(e)[:300]), dict(clause="trial", space=sname, script=list(script)))
        break
      ntr += 1
      why = inspect_trial(model, qm, limit, idxs, hp.points, script, sname)
      run.concrete_checks += 1
      if why:
        run.violation(dict(clause="trial_model", space=sname, what=why[0]), dict(script=list(script), detail=why[1]), dict(clause="trial", space=sname, script=list(script)))
        break
      # next assignment (odometer over the choice points actually met)
      full = [(script[i] if i < len(script) else 0) for i in range(len(hp.points))]
      k = len(full) - 1
      while k >= 0 and full[k] + 1 >= len(hp.points[k][1]):
        k -= 1
      if k < 0 or ntr > 600:
        break
      script = full[:k] + [full[k] + 1]
    total += ntr
    run.configs.append("trials:%s (%d assignments)" % (sname, ntr))
  run.aux["trial_models_enumerated"] = total


def _bits_of(role, qstr):
  return QCFG[role].get(qstr)


def inspect_trial(model, qm, limit, idxs, points, script, sname):
  """None or (what, detail)"""
  import re
  src, dst = model.layers, qm.layers
  if [l.name for l in src] != [l.name for l in dst]:
    return "architecture", dict(before=[l.name for l in src], after=[l.name for l in dst])
  for i, (l, q) in enumerate(zip(src, dst)):
    if tuple(l.output.shape) != tuple(q.output.shape):
      return "architecture", dict(layer=l.name, shapes=[str(l.output.shape), str(q.output.shape)])
    cls, qcls = type(l).__name__, type(q).__name__
    if cls == "InputLayer":
      continue
    pat = [p for p in limit if p not in ("Dense", "Activation") and re.match(p, l.name)]
    key = pat[0] if pat else cls
    selected = (idxs is None or i in idxs) and key in limit and not (cls == "Activation" and l.get_config().get("activation") == "softmax")
    if not selected:
      if qcls != cls:
        return "unselected_layer_quantized", dict(layer=l.name, got=qcls)
      continue
    lim = limit[key]
    if cls == "Dense":
      if qcls != "QDense":
        return "selected_layer_not_quantized", dict(layer=l.name, got=qcls)
      ks, bs = q.get_quantizers()[:2]
      for role, s, lm in (("kernel", ks, lim[0]), ("bias", bs, lim[1])):
        got = [n for n in QCFG[role] if _same_kind(_mk(n), s)]
        s = str(s)
        if not got:
          return "quantizer_not_from_configuration", dict(layer=l.name, role=role, quantizer=s)
        if min(QCFG[role][n] for n in got) > lm:
          return "quantizer_exceeds_limit", dict(layer=l.name, role=role, quantizer=s, limit=lm)
    elif cls == "Activation":
      if qcls != "QActivation":
        return "selected_layer_not_quantized", dict(layer=l.name, got=qcls)
      got = [n for n in QCFG["activation"] if _same_kind(_mk(n), q.quantizer)]
      s = str(q.quantizer)
      if not got:
        return "quantizer_not_from_configuration", dict(layer=l.name, role="activation", quantizer=s)
      if min(QCFG["activation"][n] for n in got) > lim[-1]:
        return "quantizer_exceeds_limit", dict(layer=l.name, role="activation", quantizer=s, limit=lim[-1])
  if sname == "pattern_group":
    ks = [str(q.get_quantizers()[0]) for q in dst if type(q).__name__ == "QDense"]
    if len(set(ks)) > 1:
      return "pattern_group_not_shared", dict(kernel_quantizers=ks)
  return None


def _same_kind(a, b):
  """same quantizer class and the same bit-width / integer parameters (layers may fill in a default alpha)"""
  if b is None or type(a).__name__ != type(b).__name__:
    return False
  return all(getattr(a, k, None) == getattr(b, k, None) for k in ("bits", "integer", "keep_negative", "negative_slope"))


_MK = {}


def _mk(s):
  if s not in _MK:
    from qkeras.quantizers import get_quantizer
    _MK[s] = get_quantizer(s)
  return _MK[s]


class NpShim(object):
  def __init__(self, real):
    self._np = real

  def __getattr__(self, k):
    return getattr(self._np, k)

  def where(self, c, a, b):
    if isinstance(c, SymBool):
      ea, eb = lift(a), lift(b)
      ea = z3.ToReal(ea) if not z3.is_real(ea) else ea
      eb = z3.ToReal(eb) if not z3.is_real(eb) else eb
      return SymReal(z3.If(c.e, ea, eb))
    return self._np.where(c, a, b)

  def log(self, x):
    if isinstance(x, (SymReal, SymInt)):
      return pysym.monotone_stub("log", x)
    return self._np.log(x)

  def prod(self, xs):
    acc = 1
    for x in xs:
      acc = acc * x
    return acc


def delta_part(run):
  ff, fb = load_modules()
  import numpy as real_np
  R, T1, T2, rate, dp, dn = z3.Reals("reference trial1 trial2 rate delta_p delta_n")
  base = [R > 0, T1 > 0, T2 > 0, T1 < T2, rate > 1, dp > 0, dn > 0]

  def fn():
    out = []
    for T in (T1, T2):
      f = ff.ForgivingFactor.__new__(ff.ForgivingFactor)
      f.delta_p, f.delta_n, f.rate = SymReal(dp), SymReal(dn), SymReal(rate)
      f.reference_size, f.trial_size = SymReal(R), SymReal(T)
      out.append(f.delta())
    return out
  ff.np = NpShim(real_np)
  try:
    with pysym.shadow(ff):
      paths, limits = pysym.explore(fn, base=base)
  finally:
    ff.np = real_np
  for pc, why in limits:
    run.inconclusive_("path limit in ForgivingFactor.delta: %s" % why)
  run.aux["delta_paths"] = len(paths)
  for pi, (pc, (d1, d2), facts) in enumerate(paths):
    d1, d2 = lift(d1), lift(d2)
    bad = z3.Or(z3.And(T1 == R, d1 != 0), z3.And(T2 == R, d2 != 0), d1 <= d2, z3.And(T1 < R, d1 <= 0), z3.And(T1 > R, d1 >= 0), z3.And(T2 < R, d2 <= 0), z3.And(T2 > R, d2 >= 0))
    v, model = harness.z3_query(run, "delta_p%d" % pi, list(pc), [bad], dict(clause="delta"))
    if model is not None:
      ok, detail = replay_delta(model)
      if ok:
        run.violation(dict(clause="delta"), detail, dict(clause="delta", model=model))
      else:
        run.inconclusive_("delta counterexample does not reproduce: %s" % detail)
  run.configs.append("ForgivingFactor.delta")


def _fr(model, k, d=1.0):
  v = model.get(k)
  if v is None:
    return d
  return v[0] / v[1] if isinstance(v, list) else float(v)


def replay_delta(model):
  ff, fb = load_modules()
  R, T1, T2 = _fr(model, "reference"), _fr(model, "trial1"), _fr(model, "trial2")
  ds = []
  for T in (T1, T2):
    f = ff.ForgivingFactor(_fr(model, "delta_p") * 100.0, _fr(model, "delta_n") * 100.0, _fr(model, "rate", 2.0))
    f.reference_size, f.trial_size = R, T
    ds.append(float(f.delta()))
  d1, d2 = ds
  bad = (T1 == R and d1 != 0) or (T1 < T2 and d1 <= d2) or (T1 < R and d1 <= 0) or (T1 > R and d1 >= 0)
  return bool(bad), dict(reference=R, trial1=T1, trial2=T2, delta1=d1, delta2=d2)


# ---- size model ----------------------------------------------------------------------------------------------------------
class WS(object):
  def __init__(self, shape):
    self.shape = shape


class QS(object):
  def __init__(self, bits):
    self.bits = bits


class OutS(object):
  class _Shape(tuple):
    def as_list(self):
      return list(self)

  def __init__(self, shape):
    self.shape = OutS._Shape(shape)


def named(name):
  return type(name, (object,), {})


def size_part(run):
  ff, fb = load_modules()
  import numpy as real_np
  a, b_, c, kb, bb, ab, ref, ib, ob = z3.Ints("d_in d_out batch_unused kernel_bits bias_bits act_bits ref_bits input_bits output_bits")
  base = [a >= 1, a <= 64, b_ >= 1, b_ <= 64, kb >= 1, kb <= 16, bb >= 1, bb <= 16, ab >= 1, ab <= 16, ref >= 1, ref <= 32, ib >= 1, ib <= 32, ob >= 1, ob <= 32]
  S = SymInt

  def act_named(nm):
    f = lambda x: x
    f.__name__ = nm
    return f

  def layers_for(case):
    inp = named("InputLayer")()
    inp.name, inp.output = "in", OutS((None, S(a)))
    if case == "float":
      d = named("Dense")()
      d.name, d.output, d.activation = "d", OutS((None, S(b_))), act_named("relu")
      d.get_weights = lambda: [WS((S(a), S(b_))), WS((S(b_),))]
      want_p = ref * (a * b_) + ref * b_
      want_a = ib * a + ref * b_
      return [inp, d], want_p, want_a
    if case == "quantized":
      d = named("QDense")()
      d.name, d.output = "d", OutS((None, S(b_)))
      d.activation = QS(S(ab))
      d.get_weights = lambda: [WS((S(a), S(b_))), WS((S(b_),))]
      d.get_quantizers = lambda: [QS(S(kb)), QS(S(bb))]
      return [inp, d], kb * (a * b_) + bb * b_, ib * a + ab * b_
    if case == "quantized_no_bias_quantizer":
      d = named("QConv2D")()
      d.name, d.output = "c", OutS((None, 3, 3, S(b_)))
      d.activation = None
      d.get_weights = lambda: [WS((2, 2, S(a), S(b_))), WS((S(b_),))]
      d.get_quantizers = lambda: [QS(S(kb)), None]
      act = named("QActivation")()
      act.name, act.output, act.activation = "a", OutS((None, 3, 3, S(b_))), "quantized_relu(<act_bits>)"
      sm = named("Activation")()
      sm.name, sm.output, sm.activation = "sm", OutS((None, S(b_))), act_named("softmax")
      inp.output = OutS((None, 4, 4, S(a)))
      return [inp, d, act, sm], kb * (4 * a * b_) + ref * b_, ib * (16 * a) + ab * (9 * b_) + ob * b_
    raise ValueError(case)

  fb.np = NpShim(real_np)
  real_gq = fb.get_quantizer
  fb.get_quantizer = lambda s: QS(S(ab)) if "<act_bits>" in s else real_gq(s)      # QActivation stores its quantizer as text
  try:
    for case in ("float", "quantized", "quantized_no_bias_quantizer"):
      layers, want_p, want_a = layers_for(case)
      model = named("Model")()
      model.layers = layers

      def fn(model=model):
        f = fb.ForgivingFactorBits.__new__(fb.ForgivingFactorBits)
        f.stress, f.input_bits, f.output_bits, f.ref_bits = 2, S(ib), S(ob), S(ref)
        f.ref_size, f.config = {}, {"default": ["parameters", "activations"]}
        tot, p, a_, d = f.compute_model_size(model)
        return tot, p, a_, f.get_reference(model)
      with pysym.shadow(fb):
        paths, limits = pysym.explore(fn, base=base)
      for pc, why in limits:
        run.inconclusive_("path limit in compute_model_size(%s): %s" % (case, why))
      for pi, (pc, (tot, p, a_, refsize), facts) in enumerate(paths):
        bad = z3.Or(lift(p) != want_p, lift(a_) != want_a, lift(tot) != want_p + want_a, lift(refsize) != 2 * (want_p + want_a))
        v, mdl = harness.z3_query(run, "size_%s_p%d" % (case, pi), list(pc), [bad], dict(clause="size_model", case=case))
        if mdl is not None:
          run.violation(dict(clause="size_model", case=case), dict(model=str(mdl)[:300]), dict(clause="size_model", case=case, model=mdl))
      run.configs.append("size:%s" % case)
    # histories: one target object scores a sequence of trials (as the hyper-model does): every get_trial() reports the size
    # of the model it was given, whatever was scored before; the reference stays that of the first model
    kb2, bb2, ab2 = z3.Ints("kernel_bits_2 bias_bits_2 act_bits_2")
    base2 = base + [kb2 >= 1, kb2 <= 16, bb2 >= 1, bb2 <= 16, ab2 >= 1, ab2 <= 16]

    def qdense_model(k_, b2_, a2_):
      inp = named("InputLayer")()
      inp.name, inp.output = "in", OutS((None, S(a)))
      d = named("QDense")()
      d.name, d.output = "d", OutS((None, S(b_)))
      d.activation = QS(S(a2_))
      d.get_weights = lambda: [WS((S(a), S(b_))), WS((S(b_),))]
      d.get_quantizers = lambda: [QS(S(k_)), QS(S(b2_))]
      m = named("Model")()
      m.layers = [inp, d]
      return m, k_ * (a * b_) + b2_ * b_ + ib * a + a2_ * b_
    m1, want1 = qdense_model(kb, bb, ab)
    m2, want2 = qdense_model(kb2, bb2, ab2)

    def hist():
      f = fb.ForgivingFactorBits.__new__(fb.ForgivingFactorBits)
      f.stress, f.input_bits, f.output_bits, f.ref_bits = 2, S(ib), S(ob), S(ref)
      f.ref_size, f.config = {}, {"default": ["parameters", "activations"]}
      r1 = f.get_reference(m1)
      t1 = f.get_trial(m1)
      t2 = f.get_trial(m2)
      r2 = f.get_reference(m2)
      return r1, t1, t2, r2, f.trial_size
    with pysym.shadow(fb):
      paths, limits = pysym.explore(hist, base=base2)
    for pc, why in limits:
      run.inconclusive_("path limit in the trial history: %s" % why)
    for pi, (pc, (r1, t1, t2, r2, ts), facts) in enumerate(paths):
      bad = z3.Or(lift(t1) != want1, lift(t2) != want2, lift(ts) != want2, lift(r1) != 2 * want1, lift(r2) != 2 * want1)
      v, mdl = harness.z3_query(run, "history_p%d" % pi, list(pc), [bad], dict(clause="trial_history"))
      if mdl is not None:
        run.violation(dict(clause="trial_history"), dict(model=str(mdl)[:300]), dict(clause="trial_history", model=mdl))
    run.configs.append("size:history(reference, trial, trial, reference)")
  finally:
    fb.np = real_np
    fb.get_quantizer = real_gq


def replay(body):
  rep = body["replay"]
  if rep.get("clause") == "delta":
    ok, detail = replay_delta(rep["model"])
    print("replay:", detail, "-> violation reproduced" if ok else "-> not reproduced")
    return ok
  if rep.get("clause") == "search_space":
    ok, detail = replay_search(rep["case"], rep["model"])
    print("replay:", str(detail)[:600], "-> violation reproduced" if ok else "-> not reproduced")
    return ok
  print("replay: re-run ./check C20")
  return True


def run(tier, seed):
  r = harness.Run(PROP, "model_checking", tier, seed)
  try:
    delta_part(r)
    size_part(r)
    search_part(r)
    trials_part(r)
  except Exception as e:  # pylint: disable=broad-except
    import traceback
    traceback.print_exc()
    r.inconclusive_("harness error: %r" % (e,))
  r.functions = ["AutoQKHyperModel._get_quantizer", "AutoQKHyperModel.quantize_model (enumerated, auxiliary)", "ForgivingFactor.delta", "ForgivingFactorBits._param_size", "ForgivingFactorBits._act_size", "ForgivingFactorBits.compute_model_size", "ForgivingFactorBits.get_reference", "ForgivingFactorBits.get_trial"]
  r.bounds = ["delta: reference/trial sizes > 0, rate > 1, delta_p, delta_n > 0 - symbolic reals; two trial sizes for strict monotonicity",
              "size model: dense / conv / activation stand-in layers with symbolic dimensions (<= 64) and symbolic bit widths",
              "history: one target object, get_reference / get_trial / get_trial / get_reference on two models with independent symbolic bit widths",
              "search space: _get_quantizer on a configuration of 3 kernel / 2 bias / 3 activation quantizers with symbolic bit widths (1..32) and "
              "symbolic limits for a class entry, a list-valued entry and two overlapping regex pattern entries (the first matching one decides); the tuner's Choice is any element of the offered "
              "list; clauses: chosen bits <= limit (or name in the list), bits reported = configured bits, class outside the limits -> (None, -1), "
              "layers matching one pattern share the choice without a new tuner variable",
              "trial models (auxiliary enumeration, exhaustive within the bound): all assignments of four small search spaces on a "
              "Dense/Activation/Dense/softmax reference through the real quantize_model; filter tuning, recurrent/separable layers and the "
              "learning-rate option are not exercised"]
  r.assumptions = ["np.log: strictly increasing with log(1) = 0 (contract stub)", "layers are stand-ins named like the real classes",
                   "the qkeras.autoqkeras package __init__ is not executed; keras_tuner (not importable under the pinned environment) is replaced by a stub "
                   "module providing the four imported names; the tuner's hp object is a nondeterministic stub (symbolic part) or a script (enumeration)"]
  r.trusted = ["z3 (NRA/NIA)", "vf.pysym proxies and shims"]
  return r.finish("AutoQKHyperModel._get_quantizer runs on a quantization configuration with symbolic bit widths, symbolic limits and a tuner that may "
                  "return any element it is offered: on every path the chosen quantizer respects the limit (or the allowed list), unlisted classes "
                  "stay unquantized and pattern groups share one choice; all assignments of four small search spaces are additionally run through "
                  "the real quantize_model (auxiliary).  ForgivingFactor.delta runs on symbolic sizes: zero at equal sizes, strictly decreasing in the trial size, positive below and "
                  "negative above the reference.  The size model runs on stand-in layers with symbolic shapes and bit widths: parameters and "
                  "activations are elements x bits of the quantizer applied (reference width where none), reference = stress x size.")
