"""C20 - AutoQKeras: forgiving-factor bonus and the size model (engine B).  The hyper-model clauses are NOT covered:
qkeras.autoqkeras cannot be imported under the pinned environment (keras-tuner needs tensorflow.keras.layers.experimental)."""
import importlib
import os
import sys
import types
import numpy as np
import z3

from .. import harness, pysym
from ..pysym import SymInt, SymReal, SymBool, lift

PROP = "C20"


def load_modules():
  """import forgiving_factor / forgiving_bits without executing the qkeras.autoqkeras package __init__ (recorded cut)"""
  import qkeras
  root = os.path.join(os.path.dirname(qkeras.__file__), "autoqkeras")
  for name, path in (("qkeras.autoqkeras", root), ("qkeras.autoqkeras.forgiving_metrics", os.path.join(root, "forgiving_metrics"))):
    if name not in sys.modules:
      m = types.ModuleType(name)
      m.__path__ = [path]
      sys.modules[name] = m
  ff = importlib.import_module("qkeras.autoqkeras.forgiving_metrics.forgiving_factor")
  fb = importlib.import_module("qkeras.autoqkeras.forgiving_metrics.forgiving_bits")
  return ff, fb


class NpShim(object):
  def __init__(self, real):
    self._np = real

  def __getattr__(self, k):
    return getattr(self._np, k)

  def where(self, c, a, b):
    if isinstance(c, SymBool):
      ea, eb = lift(a), lift(b)
      ea = z3.ToReal(ea) if not z3.is_real(ea) else ea
      eb = z3.ToReal(eb) if not z3.is_real(eb) else eb
      return SymReal(z3.If(c.e, ea, eb))
    return self._np.where(c, a, b)

  def log(self, x):
    if isinstance(x, (SymReal, SymInt)):
      return pysym.monotone_stub("log", x)
    return self._np.log(x)

  def prod(self, xs):
    acc = 1
    for x in xs:
      acc = acc * x
    return acc


def delta_part(run):
  ff, fb = load_modules()
  import numpy as real_np
  R, T1, T2, rate, dp, dn = z3.Reals("reference trial1 trial2 rate delta_p delta_n")
  base = [R > 0, T1 > 0, T2 > 0, T1 < T2, rate > 1, dp > 0, dn > 0]

  def fn():
    out = []
    for T in (T1, T2):
      f = ff.ForgivingFactor.__new__(ff.ForgivingFactor)
      f.delta_p, f.delta_n, f.rate = SymReal(dp), SymReal(dn), SymReal(rate)
      f.reference_size, f.trial_size = SymReal(R), SymReal(T)
      out.append(f.delta())
    return out
  ff.np = NpShim(real_np)
  try:
    with pysym.shadow(ff):
      paths, limits = pysym.explore(fn, base=base)
  finally:
    ff.np = real_np
  for pc, why in limits:
    run.inconclusive_("path limit in ForgivingFactor.delta: %s" % why)
  run.aux["delta_paths"] = len(paths)
  for pi, (pc, (d1, d2), facts) in enumerate(paths):
    d1, d2 = lift(d1), lift(d2)
    bad = z3.Or(z3.And(T1 == R, d1 != 0), z3.And(T2 == R, d2 != 0), d1 <= d2, z3.And(T1 < R, d1 <= 0), z3.And(T1 > R, d1 >= 0), z3.And(T2 < R, d2 <= 0), z3.And(T2 > R, d2 >= 0))
    v, model = harness.z3_query(run, "delta_p%d" % pi, list(pc), [bad], dict(clause="delta"))
    if model is not None:
      ok, detail = replay_delta(model)
      if ok:
        run.violation(dict(clause="delta"), detail, dict(clause="delta", model=model))
      else:
        run.inconclusive_("delta counterexample does not reproduce: %s" % detail)
  run.configs.append("ForgivingFactor.delta")


def _fr(model, k, d=1.0):
  v = model.get(k)
  if v is None:
    return d
  return v[0] / v[1] if isinstance(v, list) else float(v)


def replay_delta(model):
  ff, fb = load_modules()
  R, T1, T2 = _fr(model, "reference"), _fr(model, "trial1"), _fr(model, "trial2")
  ds = []
  for T in (T1, T2):
    f = ff.ForgivingFactor(_fr(model, "delta_p") * 100.0, _fr(model, "delta_n") * 100.0, _fr(model, "rate", 2.0))
    f.reference_size, f.trial_size = R, T
    ds.append(float(f.delta()))
  d1, d2 = ds
  bad = (T1 == R and d1 != 0) or (T1 < T2 and d1 <= d2) or (T1 < R and d1 <= 0) or (T1 > R and d1 >= 0)
  return bool(bad), dict(reference=R, trial1=T1, trial2=T2, delta1=d1, delta2=d2)


# ---- size model ----------------------------------------------------------------------------------------------------------
class WS(object):
  def __init__(self, shape):
    self.shape = shape


class QS(object):
  def __init__(self, bits):
    self.bits = bits


class OutS(object):
  class _Shape(tuple):
    def as_list(self):
      return list(self)

  def __init__(self, shape):
    self.shape = OutS._Shape(shape)


def named(name):
  return type(name, (object,), {})


def size_part(run):
  ff, fb = load_modules()
  import numpy as real_np
  a, b_, c, kb, bb, ab, ref, ib, ob = z3.Ints("d_in d_out batch_unused kernel_bits bias_bits act_bits ref_bits input_bits output_bits")
  base = [a >= 1, a <= 64, b_ >= 1, b_ <= 64, kb >= 1, kb <= 16, bb >= 1, bb <= 16, ab >= 1, ab <= 16, ref >= 1, ref <= 32, ib >= 1, ib <= 32, ob >= 1, ob <= 32]
  S = SymInt

  def act_named(nm):
    f = lambda x: x
    f.__name__ = nm
    return f

  def layers_for(case):
    inp = named("InputLayer")()
    inp.name, inp.output = "in", OutS((None, S(a)))
    if case == "float":
      d = named("Dense")()
      d.name, d.output, d.activation = "d", OutS((None, S(b_))), act_named("relu")
      d.get_weights = lambda: [WS((S(a), S(b_))), WS((S(b_),))]
      want_p = ref * (a * b_) + ref * b_
      want_a = ib * a + ref * b_
      return [inp, d], want_p, want_a
    if case == "quantized":
      d = named("QDense")()
      d.name, d.output = "d", OutS((None, S(b_)))
      d.activation = QS(S(ab))
      d.get_weights = lambda: [WS((S(a), S(b_))), WS((S(b_),))]
      d.get_quantizers = lambda: [QS(S(kb)), QS(S(bb))]
      return [inp, d], kb * (a * b_) + bb * b_, ib * a + ab * b_
    if case == "quantized_no_bias_quantizer":
      d = named("QConv2D")()
      d.name, d.output = "c", OutS((None, 3, 3, S(b_)))
      d.activation = None
      d.get_weights = lambda: [WS((2, 2, S(a), S(b_))), WS((S(b_),))]
      d.get_quantizers = lambda: [QS(S(kb)), None]
      act = named("QActivation")()
      act.name, act.output, act.activation = "a", OutS((None, 3, 3, S(b_))), "quantized_relu(<act_bits>)"
      sm = named("Activation")()
      sm.name, sm.output, sm.activation = "sm", OutS((None, S(b_))), act_named("softmax")
      inp.output = OutS((None, 4, 4, S(a)))
      return [inp, d, act, sm], kb * (4 * a * b_) + ref * b_, ib * (16 * a) + ab * (9 * b_) + ob * b_
    raise ValueError(case)

  fb.np = NpShim(real_np)
  real_gq = fb.get_quantizer
  fb.get_quantizer = lambda s: QS(S(ab)) if "<act_bits>" in s else real_gq(s)      # QActivation stores its quantizer as text
  try:
    for case in ("float", "quantized", "quantized_no_bias_quantizer"):
      layers, want_p, want_a = layers_for(case)
      model = named("Model")()
      model.layers = layers

      def fn(model=model):
        f = fb.ForgivingFactorBits.__new__(fb.ForgivingFactorBits)
        f.stress, f.input_bits, f.output_bits, f.ref_bits = 2, S(ib), S(ob), S(ref)
        f.ref_size, f.config = {}, {"default": ["parameters", "activations"]}
        tot, p, a_, d = f.compute_model_size(model)
        return tot, p, a_, f.get_reference(model)
      with pysym.shadow(fb):
        paths, limits = pysym.explore(fn, base=base)
      for pc, why in limits:
        run.inconclusive_("path limit in compute_model_size(%s): %s" % (case, why))
      for pi, (pc, (tot, p, a_, refsize), facts) in enumerate(paths):
        bad = z3.Or(lift(p) != want_p, lift(a_) != want_a, lift(tot) != want_p + want_a, lift(refsize) != 2 * (want_p + want_a))
        v, mdl = harness.z3_query(run, "size_%s_p%d" % (case, pi), list(pc), [bad], dict(clause="size_model", case=case))
        if mdl is not None:
          run.violation(dict(clause="size_model", case=case), dict(model=str(mdl)[:300]), dict(clause="size_model", case=case, model=mdl))
      run.configs.append("size:%s" % case)
    # histories: one target object scores a sequence of trials (as the hyper-model does): every get_trial() reports the size
    # of the model it was given, whatever was scored before; the reference stays that of the first model
    kb2, bb2, ab2 = z3.Ints("kernel_bits_2 bias_bits_2 act_bits_2")
    base2 = base + [kb2 >= 1, kb2 <= 16, bb2 >= 1, bb2 <= 16, ab2 >= 1, ab2 <= 16]

    def qdense_model(k_, b2_, a2_):
      inp = named("InputLayer")()
      inp.name, inp.output = "in", OutS((None, S(a)))
      d = named("QDense")()
      d.name, d.output = "d", OutS((None, S(b_)))
      d.activation = QS(S(a2_))
      d.get_weights = lambda: [WS((S(a), S(b_))), WS((S(b_),))]
      d.get_quantizers = lambda: [QS(S(k_)), QS(S(b2_))]
      m = named("Model")()
      m.layers = [inp, d]
      return m, k_ * (a * b_) + b2_ * b_ + ib * a + a2_ * b_
    m1, want1 = qdense_model(kb, bb, ab)
    m2, want2 = qdense_model(kb2, bb2, ab2)

    def hist():
      f = fb.ForgivingFactorBits.__new__(fb.ForgivingFactorBits)
      f.stress, f.input_bits, f.output_bits, f.ref_bits = 2, S(ib), S(ob), S(ref)
      f.ref_size, f.config = {}, {"default": ["parameters", "activations"]}
      r1 = f.get_reference(m1)
      t1 = f.get_trial(m1)
      t2 = f.get_trial(m2)
      r2 = f.get_reference(m2)
      return r1, t1, t2, r2, f.trial_size
    with pysym.shadow(fb):
      paths, limits = pysym.explore(hist, base=base2)
    for pc, why in limits:
      run.inconclusive_("path limit in the trial history: %s" % why)
    for pi, (pc, (r1, t1, t2, r2, ts), facts) in enumerate(paths):
      bad = z3.Or(lift(t1) != want1, lift(t2) != want2, lift(ts) != want2, lift(r1) != 2 * want1, lift(r2) != 2 * want1)
      v, mdl = harness.z3_query(run, "history_p%d" % pi, list(pc), [bad], dict(clause="trial_history"))
      if mdl is not None:
        run.violation(dict(clause="trial_history"), dict(model=str(mdl)[:300]), dict(clause="trial_history", model=mdl))
    run.configs.append("size:history(reference, trial, trial, reference)")
  finally:
    fb.np = real_np
    fb.get_quantizer = real_gq


def replay(body):
  rep = body["replay"]
  if rep.get("clause") == "delta":
    ok, detail = replay_delta(rep["model"])
    print("replay:", detail, "-> violation reproduced" if ok else "-> not reproduced")
    return ok
  print("replay: re-run ./check C20")
  return True


def run(tier, seed):
  r = harness.Run(PROP, "model_checking", tier, seed)
  try:
    delta_part(r)
    size_part(r)
  except Exception as e:  # pylint: disable=broad-except
    import traceback
    traceback.print_exc()
    r.inconclusive_("harness error: %r" % (e,))
  r.functions = ["ForgivingFactor.delta", "ForgivingFactorBits._param_size", "ForgivingFactorBits._act_size", "ForgivingFactorBits.compute_model_size", "ForgivingFactorBits.get_reference", "ForgivingFactorBits.get_trial"]
  r.bounds = ["delta: reference/trial sizes > 0, rate > 1, delta_p, delta_n > 0 - symbolic reals; two trial sizes for strict monotonicity",
              "size model: dense / conv / activation stand-in layers with symbolic dimensions (<= 64) and symbolic bit widths",
              "history: one target object, get_reference / get_trial / get_trial / get_reference on two models with independent symbolic bit widths",
              "NOT covered: AutoQKHyperModel._get_quantizer / quantize_model (search-space clauses): qkeras.autoqkeras cannot be imported here"]
  r.assumptions = ["np.log: strictly increasing with log(1) = 0 (contract stub)", "layers are stand-ins named like the real classes",
                   "the qkeras.autoqkeras package __init__ is not executed (it imports keras-tuner, which fails under the pinned environment)"]
  r.trusted = ["z3 (NRA/NIA)", "vf.pysym proxies and shims"]
  return r.finish("ForgivingFactor.delta runs on symbolic sizes: zero at equal sizes, strictly decreasing in the trial size, positive below and "
                  "negative above the reference.  The size model runs on stand-in layers with symbolic shapes and bit widths: parameters and "
                  "activations are elements x bits of the quantizer applied (reference width where none), reference = stress x size.")
