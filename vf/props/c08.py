"""C08 - stochastic rounding: adjacent code, unbiased in training, exact at inference."""
from fractions import Fraction
import numpy as np

from .. import harness, ir, qz, tfg, equiv, lattice, qlattice, evalr
from . import c01

PROP = "C08"

TRAIN_FIXED = [
    ("quantized_bits", dict(bits=4, integer=1)), ("quantized_bits", dict(bits=8, integer=3, symmetric=1)), ("quantized_bits", dict(bits=2, integer=0, keep_negative=False)),
    ("quantized_linear", dict(bits=4, integer=1)), ("quantized_linear", dict(bits=6, integer=0, symmetric=0)),
    ("quantized_relu", dict(bits=4, integer=1)), ("quantized_relu", dict(bits=4, integer=2, negative_slope=0.25)),
    ("quantized_tanh", dict(bits=4)), ("quantized_sigmoid", dict(bits=4)),
]

INFER = [
    ("quantized_bits", dict(bits=4, integer=1)), ("quantized_bits", dict(bits=8, integer=3, symmetric=1, keep_negative=False)), ("quantized_bits", dict(bits=4, integer=0, alpha="auto_po2")),
    ("quantized_linear", dict(bits=4, integer=1)), ("quantized_linear", dict(bits=1, integer=0)),
    ("quantized_relu", dict(bits=4, integer=1)), ("quantized_relu", dict(bits=6, integer=2, negative_slope=0.125)), ("quantized_relu", dict(bits=4, integer=1, use_sigmoid=1)),
    ("quantized_tanh", dict(bits=4)), ("quantized_tanh", dict(bits=4, use_real_tanh=True)), ("quantized_sigmoid", dict(bits=6)), ("quantized_sigmoid", dict(bits=4, symmetric=True)),
    ("quantized_po2", dict(bits=4)), ("quantized_po2", dict(bits=6, max_value=4.0)), ("quantized_relu_po2", dict(bits=4)), ("quantized_relu_po2", dict(bits=4, negative_slope=0.25)),
    ("binary", dict(alpha=1.0)), ("binary", dict()), ("binary", dict(alpha=0.5, use_01=True)), ("ternary", dict(alpha="auto")), ("ternary", dict(alpha="auto_po2")),
    ("quantized_hswish", dict(bits=6, integer=2)),
    ("quantized_po2", dict(bits=4, quadratic_approximation=True)), ("quantized_relu_po2", dict(bits=4, quadratic_approximation=True, negative_slope=0.25)),
]
STOCH_CLASSES = [
    ("stochastic_binary", dict(), "binary", dict()), ("stochastic_binary", dict(alpha=0.5), "binary", dict(alpha=0.5)),
    ("stochastic_binary", dict(alpha="auto", temperature=4.0), "binary", dict(alpha="auto")),
    ("stochastic_binary", dict(alpha="auto_po2", use_real_sigmoid=False), "binary", dict(alpha="auto_po2")),
    ("stochastic_ternary", dict(alpha="auto"), "ternary", dict(alpha="auto")), ("stochastic_ternary", dict(alpha="auto_po2", temperature=4.0), "ternary", dict(alpha="auto_po2")),
    ("stochastic_ternary", dict(alpha="auto", number_of_unrolls=2), "ternary", dict(alpha="auto", number_of_unrolls=2)),
]


def uniform_nodes(b):
  return [s["res"] for s in b.stubs if s["kind"] == "uniform"]


def train_fixed(run, idx, cls, kw, rng):
  """training phase: adjacent codes, codes are fixed points, threshold form of unbiasedness"""
  import tensorflow as tf
  kws = dict(kw, use_stochastic_rounding=True)
  cfg = qz.cfg_str(cls, kws)
  fmt = lattice.fixed_format(cls, kw)
  qz.set_learning_phase(1)
  q = qz.make(cls, kws)
  tr = qz.Traced(q, ())
  b = tr.b
  x, o = tr.xs()[0], tr.outs()[0]
  us = uniform_nodes(b)
  if len(us) < 1:
    run.inconclusive_("%s: no random draw in the training-phase graph" % cfg)
    return
  run.configs.append(cfg)
  b.close_stubs()
  step = float(fmt["step"])
  L = ir.fp_lit
  lo, hi = float(fmt["lo"] * fmt["step"]), float(fmt["hi"] * fmt["step"])
  dom = c01.domain(x, fmt)
  meta = dict(cls=cls, kw=kws, phase=1, step=str(fmt["step"]))
  # harness-side surrogate (what is being rounded): x, relu(x) etc.  Only linear / relu families have the simple form
  from . import c02
  b_u = c02.surrogate(b, cls, kw, x)
  if b_u is None:
    return
  u, grid = b_u
  inv = L(1.0 / step)
  fl = "(fp.mul RNE (fp.roundToIntegral RTN (fp.mul RNE {1} %s)) %s)" % (inv, L(step))
  ce = "(fp.mul RNE (fp.roundToIntegral RTP (fp.mul RNE {1} %s)) %s)" % (inv, L(step))
  clampf = lambda e: "(fp.min (fp.max %s %s) %s)" % (e, L(lo), L(hi))
  adjacent = "(or (fp.eq {0} %s) (fp.eq {0} %s))" % (clampf(fl), clampf(ce))
  gv = ["x_b"] + [n.attr for n in us]
  run.add("T%02d_adjacent" % idx, ir.build_smt(b, dom + [ir.L("(not %s)" % adjacent, o, u)], get_values=gv), meta=dict(meta, clause="adjacent_code"), timeout=1200)
  run.add_twin("T%02d_adjacent" % idx, ir.build_smt(b, dom + [ir.L("(= {0} {0})", o)]), meta=meta)
  if cls in ("quantized_bits", "quantized_linear") or (cls == "quantized_relu" and not kw.get("negative_slope")):
    from .c02 import is_code
    run.add("T%02d_code_fixed" % idx, ir.build_smt(b, [qz.finite_normal(x), is_code(x, fmt), ir.L("(not (fp.eq {0} {1}))", o, x)], get_values=gv), meta=dict(meta, clause="codes_unchanged"), timeout=1200)
  # threshold lemma (unbiasedness for a uniform draw): inside the range, the upper code is chosen exactly when r <= frac(u/step)
  if len(us) == 1:
    r_ = us[0]
    frac = "(fp.sub RNE (fp.mul RNE {1} %s) (fp.roundToIntegral RTN (fp.mul RNE {1} %s)))" % (inv, inv)
    inside = "(and (fp.gt {1} %s) (fp.lt {1} %s) (not (fp.eq %s %s)))" % (L(lo), L(hi), fl, ce)
    lemma = "(= (fp.eq {0} %s) (fp.leq {2} %s))" % (ce, frac)
    run.add("T%02d_threshold" % idx, ir.build_smt(b, dom + [ir.L("(and %s (not %s))" % (inside, lemma), o, u, r_)], get_values=gv), meta=dict(meta, clause="unbiased_threshold"), timeout=1200)


TRAIN_PO2 = [("quantized_po2", dict(bits=4)), ("quantized_po2", dict(bits=6, max_value=4.0)), ("quantized_relu_po2", dict(bits=4))]
R_MIN = 2.0 ** -23         # draws below this move a code up (recorded finding): kept as a separate region
SLACK = 2.0 ** -22


def train_po2(run, idx, cls, kw, rng):
  """training phase of the power-of-two quantizers: the draw picks one of the two powers of two enclosing |x|"""
  from . import c03
  kws = dict(kw, use_stochastic_rounding=True)
  cfg = qz.cfg_str(cls, kws)
  fmt = c03.po2_format(cls, kw)
  qz.set_learning_phase(1)
  q = qz.make(cls, kws)
  tr = qz.Traced(q, ())
  b = tr.b
  x, o = tr.xs()[0], tr.outs()[0]
  us = uniform_nodes(b)
  if len(us) < 1:
    run.inconclusive_("%s: no random draw in the training-phase graph" % cfg)
    return
  # several draws (the ReLU variant draws once per branch): the clauses are about the draw the output for positive inputs reads;
  # it is identified by evaluating the translated graph with one draw at a time moved from 0 to just below 1
  r_ = None
  for cand in us:
    outs = []
    for rv in (0.0, 0.999):
      fv = {u_.attr: np.float32(0.5) for u_ in us}
      fv[cand.attr] = np.float32(rv)
      outs.append(tfg.concrete_env(b, [o], {"x": np.float32(0.3)}, free_vals=fv)[o.nid])
    if not evalr.same(outs[0], outs[1]):
      r_ = cand
  if r_ is None:
    run.inconclusive_("%s: no draw influences the output at x = 0.3" % cfg)
    return
  others = [u_ for u_ in us if u_ is not r_]
  # translator validation with the draw forced (same stub as the replay)
  bad = []
  for xv in [0.3, -1.7, 0.25, 3.9, 0.07, 1.0, 0.7]:
    for rv in (0.0, 0.25, 0.5, 0.999):
      if fmt["relu"] and xv < 0:
        continue
      real = _eager_with_draw(q, np.float32(xv), np.float32(rv))
      enc = tfg.concrete_env(b, [o], {"x": np.float32(xv)}, free_vals={u_.attr: np.float32(rv) for u_ in us})[o.nid]
      run.validated_points += 1
      if not evalr.same(enc, real):
        bad.append((xv, rv, float(enc), float(real)))
  run.validated_graphs += 1
  if bad:
    run.inconclusive_("translator mismatch (po2 training phase) for %s: %s" % (cfg, bad[:3]))
    return
  run.configs.append(cfg)
  b.close_stubs()
  L = ir.fp_lit
  lo_e, k_e = fmt["min_exp"], fmt["kmax"]
  meta = dict(cls=cls, kw=kws, phase=1, family="po2")
  e = "((_ extract 30 23) x_b)"
  mz = "(= ((_ extract 22 0) x_b) #b00000000000000000000000)"
  lo = "((_ to_fp 8 24) (concat #b0 %s #b00000000000000000000000))" % e
  hi = "(fp.mul RNE %s %s)" % (lo, L(2.0))
  pos = [ir.L("(fp.isPositive {0})", x)] if fmt["relu"] else []
  fin = [qz.finite_normal(x)]
  interior = [ir.L("(and (fp.geq (fp.abs {0}) %s) (fp.lt (fp.abs {0}) %s))" % (L(2.0 ** lo_e), L(2.0 ** k_e)), x)]
  gv = ["x_b", r_.attr]
  sgn = "(ite (fp.isNegative {0}) (fp.neg %s) %s)"
  adjacent = "(or (fp.eq {1} %s) (fp.eq {1} %s))" % (sgn % (lo, lo), sgn % (hi, hi))
  run.add("P%02d_adjacent" % idx, ir.build_smt(b, fin + pos + interior + [ir.L("(not %s)" % mz), ir.L("(not %s)" % adjacent, x, o)], get_values=gv),
          meta=dict(meta, clause="adjacent_code"), timeout=1200)
  run.add_twin("P%02d_adjacent" % idx, ir.build_smt(b, fin + pos + interior + [ir.L("(= {0} {0})", o)]), meta=meta)
  # threshold form of unbiasedness, up to the granularity of the generator: frac = |x|/2^e - 1
  frac = "(fp.sub RNE (fp.div RNE (fp.abs {0}) %s) %s)" % (lo, L(1.0))
  up = "(fp.eq (fp.abs {1}) %s)" % hi
  lemma = "(and (=> (fp.leq {2} (fp.sub RNE %s %s)) %s) (=> (fp.geq {2} (fp.add RNE %s %s)) (not %s)))" % (frac, L(SLACK), up, frac, L(SLACK), up)
  run.add("P%02d_threshold" % idx, ir.build_smt(b, fin + pos + interior + [ir.L("(not %s)" % mz), ir.L("(not %s)" % lemma, x, o, r_)], get_values=gv),
          meta=dict(meta, clause="unbiased_threshold"), timeout=1200)
  # codes are returned unchanged (for every draw that is not below the generator's granularity; that band is its own region)
  codes = [ir.L("(and (fp.geq (fp.abs {0}) %s) (fp.leq (fp.abs {0}) %s))" % (L(2.0 ** lo_e), L(2.0 ** k_e)), x), mz]
  run.add("P%02d_code_fixed" % idx, ir.build_smt(b, fin + pos + codes + [ir.L("(fp.geq {0} %s)" % L(R_MIN), r_), ir.L("(not (fp.eq {0} {1}))", o, x)], get_values=gv),
          meta=dict(meta, clause="codes_unchanged", region="draw_regular"), timeout=1200)
  run.add("P%02d_code_fixed_r0" % idx, ir.build_smt(b, fin + pos + codes + [ir.L("(fp.lt {0} %s)" % L(R_MIN), r_), ir.L("(not (fp.eq {0} {1}))", o, x)], get_values=gv),
          meta=dict(meta, clause="codes_unchanged", region="draw_below_granularity"), timeout=1200)


def _eager_with_draw(q, x, r):
  """the real quantizer in the training phase with tf.random.uniform stubbed to the given draw (TF's own affine map kept)"""
  import tensorflow as tf

  def fake(shape, minval=0, maxval=None, **k):
    base = tf.fill(shape, tf.constant(np.float32(r), tf.float32))
    if maxval is None:
      return base
    return base * (maxval - minval) + minval
  qz.set_learning_phase(1)
  with forced_uniform(fake):
    return np.float32(np.asarray(q(tf.constant(np.float32(x), tf.float32))).reshape(-1)[0])


class forced_uniform(object):
  """environment stub for the random generator: every `random.uniform` the library can reach (the `tf` alias of
  qkeras.quantizers is tensorflow.compat.v2, whose `random` namespace is a different module object from tensorflow.random)"""

  def __init__(self, fake):
    self.fake = fake

  def __enter__(self):
    import importlib
    import tensorflow as tf
    mods = [tf.random]
    for name in ("qkeras.quantizers", "qkeras.base_quantizer"):
      try:
        m = importlib.import_module(name)
        if hasattr(m, "tf"):
          mods.append(m.tf.random)
      except Exception:  # pylint: disable=broad-except
        pass
    self.saved = []
    for m in mods:
      if all(m is not s[0] for s in self.saved):
        self.saved.append((m, m.uniform))
        m.uniform = self.fake
    return self

  def __exit__(self, *a):
    for m, f in self.saved:
      m.uniform = f


def replay_po2(rep):
  from . import c03
  import math
  cls, kw, clause = rep["cls"], rep["kw"], rep["clause"]
  fmt = c03.po2_format(cls, {k: v for k, v in kw.items() if k != "use_stochastic_rounding"})
  x = ir.bits_f32(rep["x_bits"])
  r = np.float32(rep.get("r", 0.5))
  q = qz.make(cls, kw)
  out = _eager_with_draw(q, x, r)
  qz.set_learning_phase(0)
  y = abs(Fraction(float(x)))
  e = math.floor(math.log2(float(y))) if y > 0 else None
  if e is not None and Fraction(2) ** e > y:
    e -= 1
  lo, hi = Fraction(2) ** e, Fraction(2) ** (e + 1)
  o = Fraction(float(out))
  s = -1 if x < 0 else 1
  detail = dict(x=float(x), draw=float(r), out=float(out), lower_code=float(s * lo), upper_code=float(s * hi), cfg=qz.cfg_str(cls, kw))
  if clause == "adjacent_code":
    return o not in (s * lo, s * hi), detail
  if clause == "codes_unchanged":
    return o != Fraction(float(x)), detail
  if clause == "unbiased_threshold":
    frac = y / lo - 1
    rr = Fraction(float(r))
    sl = Fraction(SLACK)
    return bool((rr <= frac - sl and abs(o) != hi) or (rr >= frac + sl and abs(o) == hi)), dict(detail, frac=float(frac))
  return False, detail


def infer_equal(run, idx, cls, kw, rng):
  """inference phase: the stochastic configuration is the same function as the round-to-nearest one"""
  shape = qlattice.shape_for(cls, kw)
  qz.set_learning_phase(0)
  qs = qz.make(cls, dict(kw, use_stochastic_rounding=True))
  qd = qz.make(cls, dict(kw))
  _equal(run, "I%02d" % idx, qs, qd, shape, dict(cls=cls, kw=kw, clause="inference_equals_deterministic", phase=0), qz.cfg_str(cls, dict(kw, use_stochastic_rounding=True)), rng)


def _equal(run, oid, qa, qb, shape, meta, cfg, rng):
  import tensorflow as tf
  from . import c09

  def confirm(w):
    x = np.zeros(shape, dtype=np.float32).reshape(-1)
    for i, n in enumerate(c09.tfg_names(shape)):
      x[i] = np.float32(w.get(n, 0.0))
    x = x.reshape(shape)
    qz.set_learning_phase(0)
    try:
      ya = np.asarray(qa(tf.constant(x)))
      yb = np.asarray(qb(tf.constant(x)))
    except Exception as e:  # pylint: disable=broad-except
      return True, dict(x=x.tolist(), error=repr(e)[:200])
    same = ya.shape == yb.shape and np.array_equal(np.nan_to_num(ya, nan=77.0), np.nan_to_num(yb, nan=77.0))
    return (not same), dict(x=x.tolist(), out=ya.tolist(), out_deterministic=yb.tolist())
  # the route must work at all (shape bugs show up here)
  run.concrete_checks += 1
  ok, detail = confirm({n: float(v) for n, v in zip(c09.tfg_names(shape), (rng.randn(max(1, int(np.prod(shape)))) * 2))})
  if ok:
    run.violation(dict(clause=meta["clause"], cls=meta["cls"], how="probe"), dict(cfg=cfg, **detail), dict(clause=meta["clause"], cls=meta["cls"], kw=meta["kw"], x=detail["x"], other=meta.get("other")))
    return
  try:
    b = ir.Builder()
    ta = qz.Traced(qa, shape, builder=b)
    tb = qz.Traced(qb, shape, builder=b)
  except tfg.Unsupported as e:
    run.aux.setdefault("untranslated", []).append("%s: %s" % (cfg, e))
    return
  run.configs.append(cfg)
  inputs = ta.xs()
  dom = [qz.finite_normal(x) for x in inputs] + [qz.abs_lt(x, 2.0 ** 20) for x in inputs]
  prs = np.random.RandomState(7)
  names = [n.attr for n in inputs]
  probes = [dict(zip(names, (prs.randn(len(names)) * s).astype(np.float32).tolist())) for s in (0.2, 1.0, 5.0)]
  v = equiv.decide(run, oid, b, ta.out, tb.out, inputs, dom, confirm, meta, fp=True, probes=probes, timeout=600)
  if v.kind == "different":
    run.violation(dict(clause=meta["clause"], cls=meta["cls"], how=v.how), dict(cfg=cfg, **v.detail), dict(clause=meta["clause"], cls=meta["cls"], kw=meta["kw"], x=v.detail.get("x"), other=meta.get("other")))
  elif v.kind == "inconclusive":
    run.inconclusive_("%s: %s" % (cfg, v.how))


def replay_concrete(rep):
  import tensorflow as tf
  cls, kw, clause = rep["cls"], rep["kw"], rep["clause"]
  if clause in ("inference_equals_deterministic", "stochastic_class_inference"):
    qz.set_learning_phase(0)
    if clause == "stochastic_class_inference":
      qa, qb = qz.make(cls, kw), qz.make(rep["other"][0], rep["other"][1])
    else:
      qa, qb = qz.make(cls, dict(kw, use_stochastic_rounding=True)), qz.make(cls, dict(kw))
    x = np.asarray(rep["x"], dtype=np.float32)
    try:
      ya, yb = np.asarray(qa(tf.constant(x))), np.asarray(qb(tf.constant(x)))
    except Exception as e:  # pylint: disable=broad-except
      return True, dict(error=repr(e)[:200])
    return not (ya.shape == yb.shape and np.array_equal(ya, yb)), dict(out=ya.tolist(), out_deterministic=yb.tolist())
  # training-phase clauses: the draw is forced by stubbing tf.random.uniform (environment stub) to the solver's value
  if rep.get("family") == "po2":
    return replay_po2(rep)
  fmt = lattice.fixed_format(cls, {k: v for k, v in kw.items() if k != "use_stochastic_rounding"})
  x = ir.bits_f32(rep["x_bits"])
  r = np.float32(rep.get("r", 0.5))
  qz.set_learning_phase(1)
  q = qz.make(cls, kw)
  try:
    with forced_uniform(lambda shape, minval=0, maxval=None, **k: tf.fill(shape, tf.constant(r, tf.float32))):
      out = np.float32(np.asarray(q(tf.constant(x, tf.float32))).reshape(-1)[0])
  finally:
    qz.set_learning_phase(0)
  b = ir.Builder()
  xn = b.input("x")
  from . import c02
  un, _ = c02.surrogate(b, cls, {k: v for k, v in kw.items() if k != "use_stochastic_rounding"}, xn)
  u = Fraction(float(tfg.concrete_env(b, [un], {"x": x})[un.nid]))
  step = fmt["step"]
  lo, hi = fmt["lo"] * step, fmt["hi"] * step
  import math
  fl, ce = math.floor(u / step) * step, math.ceil(u / step) * step
  cl = lambda v: min(max(v, lo), hi)
  o = Fraction(float(out))
  detail = dict(x=float(x), draw=float(r), out=float(out), floor_code=float(cl(fl)), ceil_code=float(cl(ce)), cfg=qz.cfg_str(cls, kw))
  if clause == "adjacent_code":
    return o not in (cl(fl), cl(ce)), detail
  if clause == "codes_unchanged":
    return o != Fraction(float(x)), detail
  if clause == "unbiased_threshold":
    frac = u / step - math.floor(u / step)
    inside = lo < u < hi and fl != ce
    return bool(inside and ((o == ce) != (Fraction(float(r)) <= frac))), dict(detail, frac=float(frac))
  return False, detail


def replay(body):
  ok, detail = replay_concrete(body["replay"])
  print("replay:", str(detail)[:600], "-> violation reproduced" if ok else "-> not reproduced")
  return ok


def triage(run):
  for o in run.obls:
    r = o.result
    if r is None or r.solver in ("z3", "hash-consing", "probe+replay", "z3-real-relaxation+replay", "equiv"):
      continue
    if o.twin:
      if r.verdict != "sat":
        run.inconclusive_("reachability twin %s is %s" % (o.oid, r.verdict))
      continue
    if r.verdict == "unsat" or o.meta.get("phase") != 1:
      continue
    if r.verdict == "sat":
      m = o.meta
      rv = None
      for k, v in r.model.items():
        if k.startswith("rnd_"):
          rv = v
      rep = dict(cls=m["cls"], kw=m["kw"], clause=m["clause"], x_bits=r.model.get("x_b"), r=_fpval(rv))
      if m.get("family"):
        rep["family"] = m["family"]
      ok, detail = replay_concrete(rep)
      if ok:
        sig = dict(clause=m["clause"], cls=m["cls"], phase=1)
        if m.get("region"):
          sig["region"] = m["region"]
        run.violation(sig, detail, rep)
      else:
        run.inconclusive_("counterexample of %s does not reproduce on the real code: %s" % (o.oid, str(detail)[:300]))
    else:
      run.inconclusive_("%s: solver answered %s %s" % (o.oid, r.verdict, r.raw[-200:]))


def _fpval(v):
  """'(fp #b0 #x7e #b000...)' / '(fp #b0 #b01111110 #b000...)' -> float"""
  import re
  if v is None:
    return 0.5
  if isinstance(v, (int, float)):
    return float(v)
  toks = re.findall(r"#([xb])([0-9a-fA-F]+)", str(v))
  if len(toks) != 3:
    if "zero" in str(v):
      return 0.0
    return 0.5
  vals = [int(t, 16 if k == "x" else 2) for k, t in toks]
  return float(ir.bits_f32((vals[0] << 31) | (vals[1] << 23) | vals[2]))


def run(tier, seed):
  r = harness.Run(PROP, "model_checking", tier, seed)
  rng = np.random.RandomState(seed)
  train = TRAIN_FIXED if tier == "thorough" else [TRAIN_FIXED[i] for i in (0, 3, 5, 7)]
  for i, (cls, kw) in enumerate(train):
    try:
      train_fixed(r, i, cls, kw, rng)
    except tfg.Unsupported as e:
      r.inconclusive_("cannot translate %s: %s" % (qz.cfg_str(cls, kw), e))
  for i, (cls, kw) in enumerate(TRAIN_PO2 if tier == "thorough" else TRAIN_PO2[:1]):
    try:
      train_po2(r, i, cls, kw, rng)
    except tfg.Unsupported as e:
      r.inconclusive_("cannot translate %s (training phase): %s" % (qz.cfg_str(cls, kw), e))
  infer = INFER if tier == "thorough" else INFER[:-2:2] + INFER[-2:-1]
  for i, (cls, kw) in enumerate(infer):
    try:
      infer_equal(r, i, cls, kw, rng)
    except Exception as e:  # pylint: disable=broad-except
      import traceback
      traceback.print_exc()
      r.inconclusive_("harness error on %s: %r" % (qz.cfg_str(cls, kw), e))
  for i, (c1, k1, c2, k2) in enumerate(STOCH_CLASSES):
    qz.set_learning_phase(0)
    shape = (2, 2) if isinstance(k1.get("alpha"), str) else ()
    try:
      _equal(r, "S%02d" % i, qz.make(c1, k1), qz.make(c2, k2), shape, dict(cls=c1, kw=k1, clause="stochastic_class_inference", phase=0, other=[c2, k2]),
             qz.cfg_str(c1, k1) + " vs " + qz.cfg_str(c2, k2), rng)
    except Exception as e:  # pylint: disable=broad-except
      import traceback
      traceback.print_exc()
      r.inconclusive_("harness error on %s: %r" % (qz.cfg_str(c1, k1), e))
  r.discharge()
  triage(r)
  qz.set_learning_phase(0)
  r.functions = ["stochastic_round", "_round_through (learning-phase switch)", "quantized_bits/quantized_linear/quantized_relu/quantized_tanh/quantized_sigmoid.__call__ "
                 "with use_stochastic_rounding", "stochastic_binary.__call__", "stochastic_ternary.__call__", "binary.__call__ (stochastic branch)",
                 "_clip_power_of_two (stochastic branch, both phases)", "stochastic_round_po2"]
  r.bounds = ["training phase: %d fixed-point configurations; x symbolic (exactness region of C01), the random draw a symbolic value r in [0,1)" % len(train),
              "inference phase: %d configurations with use_stochastic_rounding and %d stochastic_binary/ternary configurations, compared for all "
              "inputs with their deterministic counterparts (scalar or (2,2) tensors)" % (len(infer), len(STOCH_CLASSES)),
              "training phase, power-of-two family (%d configuration(s); thorough: quantized_po2 with and without max_value, quantized_relu_po2 on "
              "positive inputs): for |x| between the smallest and largest code, the output is one of the two enclosing powers of two, codes are "
              "returned unchanged, and the upper one is chosen when r <= frac - 2^-22 and not chosen when r >= frac + 2^-22 "
              "(frac = |x|/2^e - 1, so the mean is |x| up to the generator's granularity)" % (len(TRAIN_PO2) if tier == "thorough" else 1),
              "binary/ternary *training-phase* distributions are not covered (inference side only); binary with a data-dependent "
              "scale and use_stochastic_rounding is compared on probe tensors only (its exact miter does not finish) and is outside the claim",
              "unbiasedness is stated as the threshold lemma 'upper code iff r <= frac'; the discreteness of the uniform generator is outside the claim"]
  r.assumptions = ["K.learning_phase is absent under the pinned Keras 3: environment stub returning 0 or 1", "RandomUniform = arbitrary value in [0,1)",
                   "Log / Pow contract stubs as in C03 (po2 training phase)",
                   "replay of training-phase counterexamples stubs tf.random.uniform with the solver's draw"]
  return r.finish("Training phase: the graph traced under learning phase 1 contains the uniform draw as a free symbolic value; the solver decides "
                  "for all (x, r) that the output is the floor- or ceil-code of the clipped surrogate, that codes are returned unchanged and that "
                  "the upper code is chosen exactly when r <= frac.  Inference phase: the graph traced under learning phase 0 is proved equal "
                  "(term identity or miter) to the graph of the deterministic configuration.")
