"""C04 - binary/ternary quantizers emit only {-s,+s}, {0,s} or {-s,0,+s}, sign-correct; data-dependent scales."""
import itertools
import numpy as np
import z3

from .. import harness, ir, qz, tfg, evalr

PROP = "C04"
EPS = 1e-7
from fractions import Fraction as _Fr
_ke = _Fr(float(np.float32(1e-7)))
KEPS = z3.Q(_ke.numerator, _ke.denominator)        # tf.keras.backend.epsilon() as the float32 constant the graph really uses


# ---------------------------------------------------------------------------------------------------
# A. element-wise part: constant / absent scale, one symbolic input
SCALAR = [
    ("binary", dict(alpha=1.0)), ("binary", dict(alpha=0.5)), ("binary", dict(alpha=2.0, use_01=True)), ("binary", dict(use_01=True, alpha=1.0)),
    ("binary", dict()), ("binary", dict(use_01=True)),
    ("ternary", dict(alpha=1.0)), ("ternary", dict(alpha=0.5, threshold=0.5)), ("ternary", dict(alpha=2.0, threshold=0.125)), ("ternary", dict()),
    ("ternary", dict(threshold=0.75)),
    ("ternary", dict(alpha=1.0, threshold=0.0)),     # a threshold of exactly 0 is a threshold (nothing but zero is below it)
]


def scalar_part(run, rng):
  for idx, (cls, kw) in enumerate(SCALAR):
    cfg = qz.cfg_str(cls, kw)
    q = qz.make(cls, kw)
    tr = qz.Traced(q, ())
    b = tr.b
    x, o = tr.xs()[0], tr.outs()[0]
    s = float(kw.get("alpha") or 1.0)
    thr = float(kw.get("threshold") if kw.get("threshold") is not None else 0.33)
    pts = qz.interesting_points([0.33, thr, -thr, s, -s], rng, n_random=16, scale=2.0)
    bad = qz.validate_scalar(tr, q, pts)
    run.validated_points += len(pts)
    run.validated_graphs += 1
    if bad:
      run.inconclusive_("translator mismatch for %s: %s" % (cfg, bad[:3]))
      continue
    run.configs.append(cfg)
    b.close_stubs()
    L = ir.fp_lit
    # exactness region of the straight-through residual for a constant scale: |x| < 2^24 * scale
    dom = [qz.finite_normal(x), qz.abs_lt(x, 2.0 ** 24 * s)]
    meta = dict(cls=cls, kw=kw, part="scalar")
    if cls == "binary":
      hi, lo = s, (0.0 if kw.get("use_01") else -s)
      nonneg = "(or (fp.geq {1} %s) (fp.isZero {1}))" % ir.PZ
      good = "(and (=> %s (fp.eq {0} %s)) (=> (not %s) (fp.eq {0} %s)))" % (nonneg, L(hi), nonneg, L(lo))
    else:
      below = "(fp.lt (fp.abs {1}) %s)" % L(np.float32(thr))
      good = ("(and (=> %s (fp.isZero {0})) (=> (and (not %s) (fp.gt {1} %s)) (fp.eq {0} %s)) (=> (and (not %s) (fp.lt {1} %s)) (fp.eq {0} %s)))"
              % (below, below, ir.PZ, L(s), below, ir.PZ, L(-s)))
    run.add("A%02d_codes" % idx, ir.build_smt(b, dom + [ir.L("(not %s)" % good, o, x)]), meta=dict(meta, clause="codes"))
    run.add_twin("A%02d_codes" % idx, ir.build_smt(b, dom + [ir.L("(= {0} {0})", o)]), meta=meta)
    qmin, qmax = float(np.asarray(q.min())), float(np.asarray(q.max()))
    run.concrete_checks += 1
    lo_v = 0.0 if (cls == "binary" and kw.get("use_01")) else -s
    if not (qmin <= lo_v and s <= qmax):
      run.add("A%02d_minmax" % idx, ir.build_smt(b, dom + [ir.L("(not (and (fp.leq %s {0}) (fp.leq {0} %s)))" % (L(qmin), L(qmax)), o)]), meta=dict(meta, clause="minmax"))


# ---------------------------------------------------------------------------------------------------
# B/C. data-dependent scales: group structure and least-squares identity (over the reals, cut at the codes)
def group_of(idx, shape, scale_axis, eps_):
  """harness-side specification of which elements share a scale"""
  rank = len(shape)
  if rank == 1:
    return idx
  if scale_axis is None:
    return (idx[-1],)
  axes = scale_axis if isinstance(scale_axis, list) else [scale_axis]
  if eps_ is None:
    return tuple(idx[a] for a in axes)
  es = eps_ if isinstance(eps_, list) else [eps_] * len(axes)
  return tuple(idx[a] // e for a, e in zip(axes, es))


TENSOR = [
    ("binary", dict(alpha="auto"), (4,)), ("binary", dict(alpha="auto"), (2, 2)), ("binary", dict(alpha="auto"), (2, 2, 2)), ("binary", dict(alpha="auto"), (1, 2, 2, 2)),
    ("binary", dict(alpha="auto", use_01=True), (2, 2)),
    ("binary", dict(alpha="auto", scale_axis=0), (2, 3)), ("binary", dict(alpha="auto", scale_axis=1), (2, 2, 2)),
    ("binary", dict(alpha="auto", scale_axis=0, elements_per_scale=2), (4, 2)), ("binary", dict(alpha="auto", scale_axis=1, elements_per_scale=1), (2, 2)),
    ("binary", dict(alpha="auto", scale_axis=[0, 1], elements_per_scale=[2, 1]), (4, 2)),
    ("binary", dict(alpha="auto_po2"), (2, 2)), ("binary", dict(alpha="auto_po2", min_po2_exponent=-1, max_po2_exponent=1), (2, 2)),
    ("binary", dict(alpha="auto_po2", scale_axis=0), (2, 2)),
    # one-sided exponent bounds (a single configured bound is a bound)
    ("binary", dict(alpha="auto_po2", max_po2_exponent=1), (2, 1)), ("binary", dict(alpha="auto_po2", min_po2_exponent=0), (2, 1)),
    ("ternary", dict(alpha="auto"), (4,)), ("ternary", dict(alpha="auto"), (2, 2)), ("ternary", dict(alpha="auto"), (2, 2, 2)), ("ternary", dict(alpha="auto_po2"), (2, 2)),
    ("ternary", dict(alpha="auto", number_of_unrolls=2), (3, 2)),
]


def find_code(out_i, s_i):
  """the code term q_i from out_i = x + stop_gradient(-x + scale*q)"""
  stack, seen = [out_i], set()
  while stack:
    n = stack.pop()
    if n.nid in seen:
      continue
    seen.add(n.nid)
    if n.op == "mul" and len(n.args) == 2 and (n.args[0] is s_i or n.args[1] is s_i):
      return n.args[1] if n.args[0] is s_i else n.args[0]
    if len(seen) < 40:
      stack.extend(n.args)
  return None


def tensor_part(run, rng, thorough):
  for idx, (cls, kw, shape) in enumerate(TENSOR):
    cfg = qz.cfg_str(cls, kw) + " on %s" % (shape,)
    q = qz.make(cls, kw)
    try:
      tr = qz.Traced(q, shape)
    except tfg.Unsupported as e:
      run.inconclusive_("cannot translate %s: %s" % (cfg, e))
      continue
    b = tr.b
    S = tr.it.lift(tr.val[q.scale.name])       # the tensor the quantizer stored in self.scale while tracing
    ts = [rng.randn(*shape) * s_ for s_ in (0.1, 1.0, 10.0)] + [np.zeros(shape), np.where(rng.rand(*shape) < 0.5, 0.0, rng.randn(*shape))]
    bad = qz.validate_tensor(tr, q, ts)
    run.validated_points += len(ts)
    run.validated_graphs += 1
    fp_exact = not bad
    if bad:
      # reductions over more than three elements: the kernel's summation order is not index order.  The real-arithmetic
      # clauses do not depend on it; the translation is then validated to float tolerance and no bit-exact claim is made.
      close = all(np.allclose(np.asarray(e_), np.asarray(r_), rtol=1e-5, atol=1e-7) for (_, e_, r_) in bad)
      if not close:
        run.inconclusive_("translator mismatch for %s: %s" % (cfg, str(bad[:1])[:300]))
        continue
      run.aux["validated_to_tolerance_only"] = run.aux.get("validated_to_tolerance_only", 0) + 1
    run.configs.append(cfg)
    meta = dict(cls=cls, kw=kw, shape=list(shape), part="tensor")
    po2 = kw.get("alpha") == "auto_po2"
    # B. the scale tensor is constant per configured group: its broadcast must not vary inside a group
    try:
      Sb = np.broadcast_to(S, shape)
    except ValueError:
      run.violation(dict(clause="scale_shape", cls=cls), dict(cfg=cfg, scale_shape=list(S.shape)), dict(clause="scale_shape", cls=cls, kw=kw, shape=list(shape)))
      continue
    groups = {}
    for pos in np.ndindex(*shape):
      groups.setdefault(group_of(pos, shape, kw.get("scale_axis"), kw.get("elements_per_scale")), []).append(pos)
    run.concrete_checks += 1
    okg = all(len(set(Sb[p].nid for p in ps)) == 1 for ps in groups.values()) and len(set(Sb[ps[0]].nid for ps in groups.values())) == len(groups)
    if not okg:
      run.violation(dict(clause="scale_groups", cls=cls, scale_axis=str(kw.get("scale_axis")), eps=str(kw.get("elements_per_scale"))),
                    dict(cfg=cfg, scale_shape=list(S.shape), expected_groups=len(groups)), dict(clause="scale_groups", cls=cls, kw=kw, shape=list(shape)))
      continue
    # C. least-squares identity over the reals, with the emitted codes as cut points (Skolem witnesses from the graph)
    codes = {}
    missing = False
    for pos in np.ndindex(*shape):
      c = find_code(tr.out[pos], Sb[pos])
      if c is None:
        missing = True
        break
      codes[pos] = c
    if missing:
      run.inconclusive_("%s: cannot locate the code term scale*q in the traced output" % cfg)
      continue
    cvars = {pos: z3.Real("c" + "_".join(map(str, pos))) for pos in codes}
    override = {codes[pos].nid: cvars[pos] for pos in codes}
    if len(override) != len(codes):
      # hash-consed: equal code terms for different positions cannot be cut independently (only when inputs coincide)
      pass
    roots = [Sb[ps[0]] for ps in groups.values()] + [tr.out[pos] for pos in codes]
    vals, vars_ = evalr.to_z3_real(roots, override=override)
    xv = {pos: vars_.get(tr.X[pos].attr) for pos in codes}
    if not po2:
      neg = []
      for g, ps in groups.items():
        sg = vals[Sb[ps[0]].nid]
        n = len(ps)
        mean_cc = z3.Sum([cvars[p] * cvars[p] for p in ps]) / n
        mean_xc = z3.Sum([(xv[p] if xv[p] is not None else 0) * cvars[p] for p in ps]) / n
        neg.append(sg * (mean_cc + KEPS) != mean_xc)
      for pos in codes:
        neg.append(vals[tr.out[pos].nid] != vals[Sb[pos].nid] * cvars[pos])
      assumptions = [z3.Or(cv == -1, cv == 0, cv == 1) for cv in cvars.values()]
      v, model = harness.z3_query(run, "C%02d_ls" % idx, assumptions, [z3.Or(*neg)], dict(meta, clause="least_squares_identity_over_reals"), timeout_ms=120000)
      if model is not None:
        run.violation(dict(clause="least_squares", cls=cls, scale_axis=str(kw.get("scale_axis")), eps=str(kw.get("elements_per_scale"))),
                      dict(cfg=cfg, model={k: str(v_) for k, v_ in list(model.items())[:12]}), dict(clause="least_squares", cls=cls, kw=kw, shape=list(shape)))
    # codes themselves: FP facts about q_i.  binary: q_i depends on x_i only
    if cls == "binary":
      pos0 = next(iter(codes))
      c0, x0 = codes[pos0], tr.X[pos0]
      hi, lo = 1.0, (0.0 if kw.get("use_01") else -1.0)
      nonneg = "(or (fp.geq {1} %s) (fp.isZero {1}))" % ir.PZ
      good = "(and (=> %s (fp.eq {0} %s)) (=> (not %s) (fp.eq {0} %s)))" % (nonneg, ir.fp_lit(hi), nonneg, ir.fp_lit(lo))
      run.add("C%02d_code" % idx, ir.build_smt(b, [qz.finite_normal(x0), ir.L("(not %s)" % good, c0, x0)]), meta=dict(meta, clause="code_sign"))
    # D. floating-point facts about the scale on the smallest shapes: non-negative, finite, power of two within bounds
    small = int(np.prod(shape)) <= 4 and len(groups) <= 2 and cls == "binary"
    if fp_exact and (small or (thorough and int(np.prod(shape)) <= 6 and cls == "binary")):
      xs = tr.xs()
      dom = []
      for xn in xs:
        dom += [qz.finite_normal(xn), qz.abs_lt(xn, 2.0 ** 60), ir.L("(or (fp.isZero {0}) (fp.geq (fp.abs {0}) %s))" % ir.fp_lit(2.0 ** -60), xn)]
      b.close_stubs()
      sg = [Sb[ps[0]] for ps in groups.values()]
      bad_s = " ".join("(fp.lt {%d} %s) (fp.isNaN {%d}) (fp.isInfinite {%d})" % (i, ir.PZ, i, i) for i in range(len(sg)))
      run.add("D%02d_scale_nonneg_finite" % idx, ir.build_smt(b, dom + [ir.L("(or %s)" % bad_s, *sg)]), meta=dict(meta, clause="scale_nonneg_finite"), timeout=1500)
      run.add_twin("D%02d_scale" % idx, ir.build_smt(b, dom + [ir.L("(= {0} {0})", sg[0])]), meta=meta)
      if po2:
        lo_e = kw.get("min_po2_exponent")
        hi_e = kw.get("max_po2_exponent")
        decl, ties, conds = [], [], []
        for i, sn in enumerate(sg):
          decl.append("(declare-const sb%d (_ BitVec 32))" % i)
          ties.append(ir.L("(= ((_ to_fp 8 24) sb%d) {0})" % i, sn))
          c = "(and (= ((_ extract 22 0) sb%d) (_ bv0 23)) (= ((_ extract 31 31) sb%d) #b0) (not (= ((_ extract 30 23) sb%d) #x00)) (not (= ((_ extract 30 23) sb%d) #xff))" % (i, i, i, i)
          if lo_e is not None:
            c += " (bvuge ((_ extract 30 23) sb%d) #x%02x)" % (i, 127 + lo_e)
          if hi_e is not None:
            c += " (bvule ((_ extract 30 23) sb%d) #x%02x)" % (i, 127 + hi_e)
          conds.append(c + ")")
        run.add("D%02d_scale_po2" % idx, ir.build_smt(b, dom + ties + ["(not (and %s))" % " ".join(conds)], extra_decls=decl), meta=dict(meta, clause="scale_po2"), timeout=1500)


def replay_concrete(rep):
  import tensorflow as tf
  cls, kw = rep["cls"], rep["kw"]
  q = qz.make(cls, kw)
  if rep.get("part") == "scalar" or "x_bits" in rep:
    x = ir.bits_f32(rep["x_bits"])
    out = np.float32(np.asarray(q(tf.constant(x, tf.float32))).reshape(-1)[0])
    s = float(kw.get("alpha") or 1.0)
    detail = dict(x=float(x), out=float(out), cfg=qz.cfg_str(cls, kw))
    if rep["clause"] == "minmax":
      return not (float(np.asarray(q.min())) <= float(out) <= float(np.asarray(q.max()))), detail
    if cls == "binary":
      want = s if (x >= 0) else (0.0 if kw.get("use_01") else -s)
    else:
      thr = np.float32(kw.get("threshold") if kw.get("threshold") is not None else 0.33)
      want = 0.0 if abs(x) < thr else (s if x > 0 else -s)
    detail["expected"] = float(want)
    return bool(out != np.float32(want)), detail
  shape = tuple(rep["shape"])
  if rep["clause"] in ("scale_shape", "scale_groups", "least_squares"):
    rs = np.random.RandomState(5)
    for _ in range(6):
      x = (rs.randn(*shape) * 2).astype(np.float32)
      out = np.asarray(q(tf.constant(x)))
      S = np.broadcast_to(np.asarray(q.scale, dtype=np.float64), shape)
      groups = {}
      for pos in np.ndindex(*shape):
        groups.setdefault(group_of(pos, shape, kw.get("scale_axis"), kw.get("elements_per_scale")), []).append(pos)
      for ps in groups.values():
        if len(set(float(S[p]) for p in ps)) != 1:
          return True, dict(x=x.tolist(), scale=np.asarray(q.scale).tolist(), why="scale varies inside a group")
        if kw.get("alpha") == "auto":
          code = np.array([np.round(out[p] / S[p]) if S[p] else 0 for p in ps])
          xs = np.array([x[p] for p in ps], dtype=np.float64)
          ls = (xs * code).mean() / ((code * code).mean() + EPS)
          if abs(ls - S[ps[0]]) > 1e-4 * max(1.0, abs(ls)):
            return True, dict(x=x.tolist(), scale=float(S[ps[0]]), least_squares=float(ls))
    return False, {}
  return False, {}


def replay(body):
  ok, detail = replay_concrete(body["replay"])
  print("replay:", str(detail)[:600], "-> violation reproduced" if ok else "-> not reproduced")
  return ok


def triage(run):
  for o in run.obls:
    r = o.result
    if r is None or r.solver in ("z3", "hash-consing"):
      continue
    if o.twin:
      if r.verdict != "sat":
        run.inconclusive_("reachability twin %s is %s" % (o.oid, r.verdict))
      continue
    if r.verdict == "unsat":
      continue
    if r.verdict == "sat":
      m = o.meta
      if m.get("part") == "scalar":
        rep = dict(cls=m["cls"], kw=m["kw"], clause=m["clause"], part="scalar", x_bits=r.model.get("x_b"))
        ok, detail = replay_concrete(rep)
        if ok:
          run.violation(dict(clause=m["clause"], cls=m["cls"], part="scalar"), detail, rep)
        else:
          run.inconclusive_("counterexample of %s does not reproduce on the real code: %s" % (o.oid, detail))
      else:
        ok, detail = replay_tensor_model(m, r.model)
        if ok:
          run.violation(dict(clause=m["clause"], cls=m["cls"], part="tensor"), detail, dict(cls=m["cls"], kw=m["kw"], shape=m["shape"], clause=m["clause"], model={k: v for k, v in r.model.items()}))
        else:
          run.inconclusive_("counterexample of %s does not reproduce on the real code: %s" % (o.oid, str(detail)[:300]))
    else:
      run.inconclusive_("%s: solver answered %s %s" % (o.oid, r.verdict, r.raw[-200:]))


def replay_tensor_model(m, model):
  import tensorflow as tf
  shape = tuple(m["shape"])
  q = qz.make(m["cls"], m["kw"])
  x = np.zeros(shape, dtype=np.float32)
  for pos in np.ndindex(*shape):
    bits = model.get("x" + "".join("_%d" % k for k in pos) + "_b")
    if bits is not None:
      x[pos] = ir.bits_f32(bits)
  out = np.asarray(q(tf.constant(x)))
  S = np.asarray(q.scale, dtype=np.float32)
  detail = dict(x=x.tolist(), out=out.tolist(), scale=S.tolist())
  if m["clause"] == "scale_nonneg_finite":
    return bool(np.any(S < 0) or not np.all(np.isfinite(S))), detail
  if m["clause"] == "scale_po2":
    fr, ex = np.frexp(S.astype(np.float64))
    bad = np.any(S <= 0) or np.any(fr != 0.5)
    if m["kw"].get("min_po2_exponent") is not None:
      bad = bad or np.any(S < 2.0 ** m["kw"]["min_po2_exponent"])
    if m["kw"].get("max_po2_exponent") is not None:
      bad = bad or np.any(S > 2.0 ** m["kw"]["max_po2_exponent"])
    return bool(bad), detail
  if m["clause"] == "code_sign":
    return False, detail
  return False, detail


def run(tier, seed):
  r = harness.Run(PROP, "model_checking", tier, seed)
  rng = np.random.RandomState(seed)
  scalar_part(r, rng)
  tensor_part(r, rng, tier == "thorough")
  r.discharge()
  triage(r)
  r.functions = ["binary.__call__", "ternary.__call__", "_get_least_squares_scale", "_get_scale_mean", "_get_scaling_axis", "_validate_axis_and_eps",
                 "_get_unrolled_shape", "_get_rolled_back_shape", "_repeat_along_axes", "_clip_po2_scale", "_sign_through/_round_through"]
  r.bounds = ["element-wise clauses: one symbolic float32, |x| < 2^24*scale (exactness of the straight-through residual), constant or absent scale",
              "group structure and least-squares identity: tensors of rank 1..4 with <= 8 elements, scale_axis / elements_per_scale options; the "
              "identity scale*(mean(code^2)+eps) = mean(x*code) is decided over the REALS with the emitted codes as cut points (z3 NRA)",
              "floating-point clauses about the scale (non-negative, finite, exact power of two within the exponent bounds) on shapes with <= %d "
              "elements, every element 0 or 2^-60 <= |x| < 2^60" % (4 if tier == "quick" else 6),
              "ternary with a data-dependent scale: the iteration is cut at the emitted codes; 'zero exactly below the threshold' is only claimed for "
              "constant thresholds"]
  r.assumptions = ["Tanh (alpha=None) / Log / Pow kernels: contract stubs as in C01/C03", "Mean = left-to-right sum then division (validated against the kernel on this run)"]
  return r.finish("Element-wise: QF_BVFP query per configuration (output = scale*code with the sign / threshold rule).  Data-dependent scale: the "
                  "traced graph is interpreted over arrays of named scalar terms, so 'one scale per configured group' is decided on the terms, "
                  "the least-squares optimum as a real-arithmetic identity in z3 with the graph's own code terms as Skolem witnesses, and sign / "
                  "finiteness / power-of-two facts about the scale as QF_BVFP queries on the smallest shapes that have the structure.")
