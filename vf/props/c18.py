"""C18 - bit widths reported for a concrete model bound the values it really produces.
Only the weight-based estimator clause (estimate.analyze_accumulator) is covered: the data-type-map clauses need QTools(model),
whose graph construction aborts under the pinned Keras 3."""
import itertools
import numpy as np
import z3

from .. import harness, pysym, layers
from ..pysym import SymInt, SymReal, lift

PROP = "C18"


def sym_array(prefix, shape):
  a = np.empty(shape, dtype=object)
  vs = {}
  for idx in np.ndindex(*shape):
    v = z3.Real(prefix + "_".join(map(str, idx)))
    a[idx] = SymReal(v)
    vs[idx] = v
  return a, vs


CASES = [
    ("QDense", dict(units=2, use_bias=False), (2,), (2, 2)),
    ("QDense", dict(units=2, use_bias=True), (2,), (2, 2)),
    ("QDense", dict(units=1, use_bias=False), (3,), (3, 1)),
    ("QConv2D", dict(filters=2, kernel_size=(1, 2), use_bias=False), (3, 3, 1), (1, 2, 1, 2)),
    ("QConv2D", dict(filters=2, kernel_size=(1, 1), use_bias=False), (3, 3, 2), (1, 1, 2, 2)),
    ("QConv1D", dict(filters=2, kernel_size=2, use_bias=False), (4, 1), (2, 1, 2)),
]


def one(run, idx, qcls, kw, sample, kshape):
  from qkeras import estimate
  Q = layers.qk()
  L = getattr(Q, qcls)(name="lay", **kw)
  L.build((None,) + sample)
  K, kv = sym_array("k", kshape)
  nout = kshape[-1]
  ws = [K]
  bv = {}
  if kw.get("use_bias"):
    B, bv = sym_array("b", (nout,))
    ws.append(B)
  L.get_weights = lambda: ws
  model = type("Model", (object,), {})()
  model.layers = [L]
  xmin, xmax = z3.Reals("x_min x_max")
  base = [xmin <= xmax, xmin >= -64, xmax <= 64] + [z3.And(v >= -8, v <= 8) for v in list(kv.values()) + list(bv.values())]
  tag = "%s%s kernel%s" % (qcls, kw, kshape)

  def fn():
    return estimate.analyze_accumulator(model, {"lay": (SymReal(xmin), SymReal(xmax))})["lay"]
  real_unfold = estimate.unfold_model
  estimate.unfold_model = lambda m: m           # recorded cut: unfold_model aborts under the pinned Keras 3
  pysym.ASSUME_LOG_POSITIVE[0] = True
  try:
    with pysym.shadow(estimate):
      paths, limits = pysym.explore(fn, base=base, max_paths=600)
  except Exception as e:  # pylint: disable=broad-except
    run.inconclusive_("symbolic execution of analyze_accumulator(%s) failed: %r" % (tag, e))
    return
  finally:
    estimate.unfold_model = real_unfold
    pysym.ASSUME_LOG_POSITIVE[0] = False
  for pc, why in limits:
    run.inconclusive_("path limit in analyze_accumulator(%s): %s" % (tag, why))
  run.configs.append(tag)
  run.aux["paths_%d" % idx] = len(paths)
  # one receptive field: the taps feeding one output position (all kernel positions x input channels)
  taps = list(np.ndindex(*kshape[:-1]))
  xs = {t: z3.Real("x" + "_".join(map(str, t))) for t in taps}
  # Worst case over the input box of a function that is linear in x is attained at a corner chosen by the sign of each
  # weight: y_max = sum_t (k_t > 0 ? x_max : x_min) * k_t + b.  The signs are decided on the path (numpy's comparisons fork),
  # so the queries below contain no input variables and no quantifier.
  def worst(j):
    hi = z3.Sum([z3.If(kv[t + (j,)] > 0, xmax * kv[t + (j,)], xmin * kv[t + (j,)]) for t in taps]) + (bv[(j,)] if bv else 0)
    lo = z3.Sum([z3.If(kv[t + (j,)] > 0, xmin * kv[t + (j,)], xmax * kv[t + (j,)]) for t in taps]) + (bv[(j,)] if bv else 0)
    return hi, lo
  jobs = []
  for pi, (pc, acc, facts) in enumerate(paths):
    l2 = [f for f in facts if isinstance(f, tuple) and f[0] == "log2_args"]
    M = l2[0][1][-1] if l2 and l2[0][1] else None
    plain_facts = [f for f in facts if not isinstance(f, tuple)]
    if M is None:
      run.inconclusive_("%s path %d: no log2 argument recorded" % (tag, pi))
      continue
    core = [p for p in pc if not any(p is f for f in plain_facts)]
    Mr = z3.ToReal(M) if not z3.is_real(M) else M
    neg = z3.Or(*[z3.Or(worst(j)[0] > Mr, -worst(j)[1] > Mr) for j in range(nout)])
    s = z3.Solver()
    s.add(*(core + [Mr > 0, neg]))
    # stage 1: 2^c >= M by the ceil-log2 contract, so 'worst case <= M' proves the bound (the contract tables are not needed)
    o = run.add("acc_%02d_p%d" % (idx, pi), "(set-option :timeout %d)\n" % (110000 if run.quick() else 550000) + s.to_smt2(),
                meta=dict(clause="estimator_bound", layer=qcls, kw=kw, kernel=list(kshape), stage="worst case <= M"), solver="z3", timeout=130 if run.quick() else 600)
    jobs.append((o, pi, pc, acc))
  run.discharge(only=[j[0] for j in jobs])
  n_bad = 0
  for o, pi, pc, acc in jobs:
    r_ = o.result
    if r_.verdict == "unsat":
      continue
    if r_.verdict != "sat":
      run.inconclusive_("%s: solver answered %s" % (o.oid, r_.verdict))
      continue
    o.expect = "unsat"
    # stage 2 (only for candidates): the real bound 2^c, in-process, to obtain a replayable counterexample
    accz = lift(acc)
    bound = pysym.pow2_expr(accz, -24, 40)
    box = [z3.And(x >= xmin, x <= xmax) for x in xs.values()]
    ys = [z3.Sum([xs[t] * kv[t + (j,)] for t in taps]) + (bv[(j,)] if bv else 0) for j in range(nout)]
    v2, mdl2 = harness.z3_query(run, "acc_%02d_p%d_pow" % (idx, pi), list(pc) + box + [accz >= -24, accz <= 40], [z3.Or(*[z3.Or(y > bound, -y > bound) for y in ys])],
                                dict(clause="estimator_bound", layer=qcls, kw=kw, kernel=list(kshape), stage="|y| <= 2^c"), timeout_ms=120000)
    if mdl2 is not None:
      rep = dict(clause="estimator_bound", layer=qcls, kw=kw, sample=list(sample), kernel=list(kshape), model=mdl2)
      ok, detail = replay_concrete(rep)
      if ok:
        n_bad += 1
        run.violation(dict(clause="estimator_bound", layer=qcls, why=detail.get("why")), detail, rep)
      else:
        run.inconclusive_("counterexample for %s does not reproduce: %s" % (tag, str(detail)[:300]))
    if n_bad >= 2:
      break
  if n_bad:
    # the remaining candidates of this case share the recorded root cause; their stage-1 'sat' verdicts are not re-examined
    for o, pi, pc, acc in jobs:
      if o.result.verdict == "sat":
        o.expect = "sat"


def _val(m, k, d=0.0):
  v = m.get(k)
  if v is None:
    return d
  return v[0] / v[1] if isinstance(v, list) else float(v)


def replay_concrete(rep):
  from qkeras import estimate
  Q = layers.qk()
  m = rep["model"]
  kshape = tuple(rep["kernel"])
  kw = rep["kw"]
  kw2 = dict(kw)
  if "kernel_size" in kw2 and isinstance(kw2["kernel_size"], list):
    kw2["kernel_size"] = tuple(kw2["kernel_size"])
  L = getattr(Q, rep["layer"])(name="lay", **kw2)
  L.build((None,) + tuple(rep["sample"]))
  K = np.zeros(kshape, dtype=np.float64)
  for idx in np.ndindex(*kshape):
    K[idx] = _val(m, "k" + "_".join(map(str, idx)))
  ws = [K]
  nout = kshape[-1]
  if kw.get("use_bias"):
    B = np.array([_val(m, "b%d" % j) for j in range(nout)])
    ws.append(B)
  L.get_weights = lambda: ws
  model = type("Model", (object,), {})()
  model.layers = [L]
  xmin, xmax = _val(m, "x_min"), _val(m, "x_max")
  real_unfold = estimate.unfold_model
  estimate.unfold_model = lambda mm: mm
  try:
    acc = estimate.analyze_accumulator(model, {"lay": (xmin, xmax)})["lay"]
  except Exception as e:  # pylint: disable=broad-except
    return False, dict(error=repr(e)[:200])
  finally:
    estimate.unfold_model = real_unfold
  taps = list(np.ndindex(*kshape[:-1]))
  worst, wj = 0.0, None
  for j in range(nout):
    # exact worst case of |sum x_t k_tj + b_j| over the box: choose each x_t at the end that helps
    hi = sum(max(xmin * K[t + (j,)], xmax * K[t + (j,)]) for t in taps) + (ws[1][j] if len(ws) > 1 else 0.0)
    lo = sum(min(xmin * K[t + (j,)], xmax * K[t + (j,)]) for t in taps) + (ws[1][j] if len(ws) > 1 else 0.0)
    if max(abs(hi), abs(lo)) > worst:
      worst, wj = max(abs(hi), abs(lo)), j
  why = None
  if worst > 2.0 ** acc * (1 + 1e-9):
    why = "bias" if (len(ws) > 1 and abs(ws[1][wj]) > 0) else ("channel_not_analysed" if (len(kshape) > 2 and wj >= kshape[1]) else "other")
  return worst > 2.0 ** acc * (1 + 1e-9), dict(kernel=K.tolist(), bias=(ws[1].tolist() if len(ws) > 1 else None), x_range=[xmin, xmax], accumulator_bits=int(acc),
                                               worst_output_magnitude=worst, channel=wj, why=why)


def replay(body):
  ok, detail = replay_concrete(body["replay"])
  print("replay:", str(detail)[:600], "-> violation reproduced" if ok else "-> not reproduced")
  return ok


def run(tier, seed):
  r = harness.Run(PROP, "model_checking", tier, seed)
  cases = CASES if tier == "thorough" else [CASES[0], CASES[1], CASES[4]]
  for i, (qcls, kw, sample, kshape) in enumerate(cases):
    try:
      one(r, i, qcls, kw, sample, kshape)
    except Exception as e:  # pylint: disable=broad-except
      import traceback
      traceback.print_exc()
      r.inconclusive_("harness error on %s: %r" % (qcls, e))
  r.functions = ["estimate.analyze_accumulator (on real QDense / QConv2D / QConv1D layer objects whose get_weights() returns arrays of symbolic reals)"]
  r.bounds = ["dense kernels 2x2 and 3x1, conv kernels 1x2x1x2, 1x1x2x2 and 2x1x2, with and without bias; weights in [-8,8], input range inside [-64,64] - all symbolic reals",
              "oracle: for every input in the range and every output channel, |sum x*k + b| <= 2^(returned accumulator size)",
              "NOT covered: the data-type-map clauses (QTools(model) cannot build its graph under the pinned Keras 3); analyze_accumulator_from_sample; "
              "executions in which the estimator takes log2 of a non-positive bound (all-zero weights)"]
  r.assumptions = ["unfold_model is cut to the identity (it aborts under the pinned Keras 3)", "ceil(log2 n) contract", "weights are taken as the layer reports them (get_weights)"]
  r.trusted = ["z3 (NRA)", "vf.pysym proxies and shims"]
  return r.finish("analyze_accumulator runs on real layer objects with symbolic weights and a symbolic input range (all feasible paths); for each path "
                  "the solver searches an input inside the range and a channel whose pre-activation magnitude exceeds 2^size.  Counterexamples are "
                  "replayed with concrete weights and the exact worst-case input.")
