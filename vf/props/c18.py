"""C18 - bit widths reported for a concrete model bound the values it really produces.
Two parts: the weight-based estimator (estimate.analyze_accumulator, symbolic weights and input range) and the qtools data-type
map: QTools(model) builds its graph through a handful of legacy Keras attributes that the pinned Keras 3 no longer has; they are
supplied as environment stubs (vf/legacy_keras.py), after which the real pipeline (qgraph, generate_layer_data_type_map, the
multiplier / accumulator / adder factories) runs on real models and the types it reports are checked with the solver."""
import itertools
import numpy as np
import z3

from .. import harness, pysym, layers
from ..pysym import SymInt, SymReal, lift

PROP = "C18"


def sym_array(prefix, shape):
  a = np.empty(shape, dtype=object)
  vs = {}
  for idx in np.ndindex(*shape):
    v = z3.Real(prefix + "_".join(map(str, idx)))
    a[idx] = SymReal(v)
    vs[idx] = v
  return a, vs


CASES = [
    ("QDense", dict(units=2, use_bias=False), (2,), (2, 2)),
    ("QDense", dict(units=2, use_bias=True), (2,), (2, 2)),
    ("QDense", dict(units=1, use_bias=False), (3,), (3, 1)),
    ("QConv2D", dict(filters=2, kernel_size=(1, 2), use_bias=False), (3, 3, 1), (1, 2, 1, 2)),
    ("QConv2D", dict(filters=2, kernel_size=(1, 1), use_bias=False), (3, 3, 2), (1, 1, 2, 2)),
    ("QConv1D", dict(filters=2, kernel_size=2, use_bias=False), (4, 1), (2, 1, 2)),
]


def one(run, idx, qcls, kw, sample, kshape):
  from qkeras import estimate
  Q = layers.qk()
  L = getattr(Q, qcls)(name="lay", **kw)
  L.build((None,) + sample)
  K, kv = sym_array("k", kshape)
  nout = kshape[-1]
  ws = [K]
  bv = {}
  if kw.get("use_bias"):
    B, bv = sym_array("b", (nout,))
    ws.append(B)
  L.get_weights = lambda: ws
  model = type("Model", (object,), {})()
  model.layers = [L]
  xmin, xmax = z3.Reals("x_min x_max")
  base = [xmin <= xmax, xmin >= -64, xmax <= 64] + [z3.And(v >= -8, v <= 8) for v in list(kv.values()) + list(bv.values())]
  tag = "%s%s kernel%s" % (qcls, kw, kshape)

  def fn():
    return estimate.analyze_accumulator(model, {"lay": (SymReal(xmin), SymReal(xmax))})["lay"]
  real_unfold = estimate.unfold_model
  estimate.unfold_model = lambda m: m           # recorded cut: unfold_model aborts under the pinned Keras 3
  pysym.ASSUME_LOG_POSITIVE[0] = True
  try:
    with pysym.shadow(estimate):
      paths, limits = pysym.explore(fn, base=base, max_paths=600)
  except Exception as e:  # pylint: disable=broad-except
    run.inconclusive_("symbolic execution of analyze_accumulator(%s) failed: %r" % (tag, e))
    return
  finally:
    estimate.unfold_model = real_unfold
    pysym.ASSUME_LOG_POSITIVE[0] = False
  for pc, why in limits:
    run.inconclusive_("path limit in analyze_accumulator(%s): %s" % (tag, why))
  run.configs.append(tag)
  run.aux["paths_%d" % idx] = len(paths)
  # one receptive field: the taps feeding one output position (all kernel positions x input channels)
  taps = list(np.ndindex(*kshape[:-1]))
  xs = {t: z3.Real("x" + "_".join(map(str, t))) for t in taps}
  # Worst case over the input box of a function that is linear in x is attained at a corner chosen by the sign of each
  # weight: y_max = sum_t (k_t > 0 ? x_max : x_min) * k_t + b.  The signs are decided on the path (numpy's comparisons fork),
  # so the queries below contain no input variables and no quantifier.
  def worst(j):
    hi = z3.Sum([z3.If(kv[t + (j,)] > 0, xmax * kv[t + (j,)], xmin * kv[t + (j,)]) for t in taps]) + (bv[(j,)] if bv else 0)
    lo = z3.Sum([z3.If(kv[t + (j,)] > 0, xmin * kv[t + (j,)], xmax * kv[t + (j,)]) for t in taps]) + (bv[(j,)] if bv else 0)
    return hi, lo
  jobs = []
  for pi, (pc, acc, facts) in enumerate(paths):
    l2 = [f for f in facts if isinstance(f, tuple) and f[0] == "log2_args"]
    M = l2[0][1][-1] if l2 and l2[0][1] else None
    plain_facts = [f for f in facts if not isinstance(f, tuple)]
    if M is None:
      run.inconclusive_("%s path %d: no log2 argument recorded" % (tag, pi))
      continue
    core = [p for p in pc if not any(p is f for f in plain_facts)]
    Mr = z3.ToReal(M) if not z3.is_real(M) else M
    neg = z3.Or(*[z3.Or(worst(j)[0] > Mr, -worst(j)[1] > Mr) for j in range(nout)])
    s = z3.Solver()
    s.add(*(core + [Mr > 0, neg]))
    # stage 1: 2^c >= M by the ceil-log2 contract, so 'worst case <= M' proves the bound (the contract tables are not needed)
    o = run.add("acc_%02d_p%d" % (idx, pi), "(set-option :timeout %d)\n" % (110000 if run.quick() else 550000) + s.to_smt2(),
                meta=dict(clause="estimator_bound", layer=qcls, kw=kw, kernel=list(kshape), stage="worst case <= M"), solver="z3", timeout=130 if run.quick() else 600)
    jobs.append((o, pi, pc, acc))
  run.discharge(only=[j[0] for j in jobs])
  n_bad = 0
  for o, pi, pc, acc in jobs:
    r_ = o.result
    if r_.verdict == "unsat":
      continue
    if r_.verdict != "sat":
      run.inconclusive_("%s: solver answered %s" % (o.oid, r_.verdict))
      continue
    o.expect = "unsat"
    # stage 2 (only for candidates): the real bound 2^c, in-process, to obtain a replayable counterexample
    accz = lift(acc)
    bound = pysym.pow2_expr(accz, -24, 40)
    box = [z3.And(x >= xmin, x <= xmax) for x in xs.values()]
    ys = [z3.Sum([xs[t] * kv[t + (j,)] for t in taps]) + (bv[(j,)] if bv else 0) for j in range(nout)]
    v2, mdl2 = harness.z3_query(run, "acc_%02d_p%d_pow" % (idx, pi), list(pc) + box + [accz >= -24, accz <= 40], [z3.Or(*[z3.Or(y > bound, -y > bound) for y in ys])],
                                dict(clause="estimator_bound", layer=qcls, kw=kw, kernel=list(kshape), stage="|y| <= 2^c"), timeout_ms=120000)
    if mdl2 is not None:
      rep = dict(clause="estimator_bound", layer=qcls, kw=kw, sample=list(sample), kernel=list(kshape), model=mdl2)
      ok, detail = replay_concrete(rep)
      if ok:
        n_bad += 1
        run.violation(dict(clause="estimator_bound", layer=qcls, why=detail.get("why")), detail, rep)
      else:
        run.inconclusive_("counterexample for %s does not reproduce: %s" % (tag, str(detail)[:300]))
    if n_bad >= 2:
      break
  if n_bad:
    # the remaining candidates of this case share the recorded root cause; their stage-1 'sat' verdicts are not re-examined
    for o, pi, pc, acc in jobs:
      if o.result.verdict == "sat":
        o.expect = "sat"


def _val(m, k, d=0.0):
  v = m.get(k)
  if v is None:
    return d
  return v[0] / v[1] if isinstance(v, list) else float(v)


# ---- the qtools data-type map ------------------------------------------------------------------------------------------------
def map_models():
  """(name, builder) - small real quantized models; every weight layer is followed or preceded by quantized activations"""
  keras = layers.K3()
  Q = layers.qk()

  def dense_stack():
    i = keras.Input((4,), name="in")
    y = Q.QDense(3, kernel_quantizer="quantized_bits(4,0,1,alpha=1)", bias_quantizer="quantized_bits(4,0,1,alpha=1)", name="d1")(i)
    y = Q.QActivation("quantized_relu(4,1)", name="a1")(y)
    y = Q.QDense(2, kernel_quantizer="quantized_bits(3,0,1,alpha=1)", use_bias=False, name="d2")(y)
    y = Q.QActivation("quantized_bits(6,2,1,alpha=1)", name="a2")(y)
    y = Q.QDense(2, kernel_quantizer="binary(alpha=1)", bias_quantizer="quantized_bits(6,2,1,alpha=1)", name="d3")(y)
    return keras.Model(i, y)

  def conv_stack():
    i = keras.Input((4, 4, 1), name="in")
    y = Q.QConv2D(2, (2, 2), kernel_quantizer="ternary(alpha=1)", bias_quantizer="quantized_po2(4)", name="c1")(i)
    y = Q.QActivation("quantized_relu(4,1)", name="a1")(y)
    y = Q.QDepthwiseConv2D((2, 2), depthwise_quantizer="quantized_bits(3,0,1,alpha=1)", use_bias=False, name="dw")(y)
    y = keras.layers.Flatten(name="f")(y)
    y = Q.QDense(2, kernel_quantizer="quantized_po2(4)", bias_quantizer="quantized_bits(4,0,1,alpha=1)", name="d2")(y)
    return keras.Model(i, y)

  def depthwise_wide():
    # kernels that are wider than tall (and taller than wide): the accumulator must grow with kh*kw taps
    i = keras.Input((3, 6, 2), name="in")
    y = Q.QDepthwiseConv2D((1, 5), depthwise_quantizer="quantized_bits(4,0,1,alpha=1)", use_bias=False, name="dw15")(i)
    y = Q.QActivation("quantized_bits(4,0,1,alpha=1)", name="a1")(y)
    y = Q.QDepthwiseConv2D((3, 2), depthwise_quantizer="quantized_bits(4,0,1,alpha=1)", bias_quantizer="quantized_bits(4,0,1,alpha=1)", name="dw32")(y)
    return keras.Model(i, y)

  def conv1d_stack():
    i = keras.Input((5, 2), name="in")
    y = Q.QConv1D(2, 3, kernel_quantizer="quantized_bits(5,1,1,alpha=1)", bias_quantizer="quantized_bits(5,1,1,alpha=1)", name="c1")(i)
    y = Q.QActivation("quantized_relu_po2(4)", name="a1")(y)
    y = Q.QConv1D(1, 2, kernel_quantizer="quantized_bits(4,0,0,alpha=1)", use_bias=False, name="c2")(y)
    return keras.Model(i, y)
  def auto_po2_dense():
    i = keras.Input((4,), name="in")
    y = Q.QDense(3, kernel_quantizer="quantized_bits(4,0,1,alpha='auto_po2')", bias_quantizer="quantized_bits(4,0,1,alpha=1)", name="d1")(i)
    m = keras.Model(i, y)
    # channels of very different magnitude -> different power-of-two scales (4, 2, 1/8); one call records them on the quantizer
    m.set_weights([np.array([[0.9, -2.3, 0.05], [0.11, 1.7, -0.1], [3.9, -0.4, 0.02], [1.0, 0.2, 0.07]], dtype=np.float32), np.zeros(3, dtype=np.float32)])
    m(np.zeros((1, 4), dtype=np.float32))
    return m
  return [("auto_po2_dense", auto_po2_dense, "quantized_bits(8,0,1)"), ("dense_stack", dense_stack, "quantized_bits(8,0,1)"), ("conv_stack", conv_stack, "quantized_bits(8,0,1)"), ("conv1d_stack", conv1d_stack, "quantized_bits(4,2,0)"), ("depthwise_wide", depthwise_wide, "quantized_bits(4,0,1)")]


def kind_of(t):
  cn = type(t).__name__
  if cn in ("QuantizedBits", "QuantizedRelu"):
    return "fixed"
  if cn in ("PowerOfTwo", "ReluPowerOfTwo"):
    return "po2s" if t.is_signed else "po2u"
  if cn == "Ternary":
    return "ternary"
  if cn == "Binary":
    return "binary01" if t.use_01 else "binary"
  return "float"


def trange(t, qi):
  """(grid exponent, lo code, hi code) of a qtools type object; QuantizedRelu is an unsigned (or, if leaky, signed) fixed-point type"""
  from . import c17
  if type(t).__name__ == "QuantizedRelu":
    s = int(bool(t.is_signed))
    mag = int(t.bits) - s
    return (-(int(t.bits) - s - int(t.int_bits)), -s * 2 ** mag, 2 ** mag - 1)
  return c17.type_range(t, qi)


def fan_in(layer, wshape):
  cn = type(layer).__name__
  if cn == "QDepthwiseConv2D":
    return int(np.prod(wshape[:-2]))
  return int(np.prod(wshape[:-1]))


def tdesc(t):
  if t is None:
    return None
  return dict(type=type(t).__name__, bits=int(t.bits), int_bits=int(t.int_bits), is_signed=int(bool(t.is_signed)), max_val_po2=getattr(t, "max_val_po2", None))


def map_part(run):
  from .. import legacy_keras, qtypes
  from . import c16, c17
  added = legacy_keras.install()
  run.aux["legacy_keras_stubs"] = sorted(set(run.aux.get("legacy_keras_stubs", [])) | set(added)) or run.aux.get("legacy_keras_stubs", [])
  Q = layers.qk()
  from qkeras.qtools import run_qtools
  qi = c16.mods()[2]
  for mname, mk, src in map_models():
    try:
      model = mk()
      qt = run_qtools.QTools(model, process="horowitz", source_quantizers=[Q.quantizers.get_quantizer(src)], is_inference=False, weights_path=None,
                             keras_quantizer="fp32", keras_accumulator="fp32", for_reference=False)
      lmap = qt._layer_map["layer_data_type_map"]
    except Exception as e:  # pylint: disable=broad-except
      import traceback
      traceback.print_exc()
      run.inconclusive_("QTools cannot process %s: %r" % (mname, e))
      continue
    for layer, item in lmap.items():
      if not isinstance(item, dict) or item.get("multiplier") is None:
        continue
      tag = "%s/%s" % (mname, layer.name)
      xin = item["input_quantizer_list"][0]
      wq, bq = item["weight_quantizer"], item["bias_quantizer"]
      mult, acc = item["multiplier"].output, item["accumulator"].output
      n = fan_in(layer, tuple(item["w_shapes"]))
      meta = dict(model=mname, layer=layer.name, fan_in=n, input=tdesc(xin), weight=tdesc(wq), bias=tdesc(bq), multiplier=tdesc(mult), accumulator=tdesc(acc))
      rep = dict(clause="datatype_map", model=mname, layer=layer.name)
      if kind_of(mult) == "float" or kind_of(acc) == "float":
        run.aux.setdefault("floating_point_entries", []).append(tag)
        continue
      # every sum of fan_in products (input value x weight value) plus a bias value is a value of the reported accumulator type.
      # The products of two code ranges lie between the smallest and the largest corner product on the grid 2^(gx+gw); a sum of
      # fan_in of them is S * 2^(gx+gw) with S between fan_in times those corners (both ends are attained: all taps equal).
      tx, tw = trange(xin, qi), trange(wq, qi)
      corners = [a * b for a in (tx[1], tx[2]) for b in (tw[1], tw[2])]
      tm = (tx[0] + tw[0], min(corners), max(corners))
      g0 = tm[0]
      S = z3.Int("S")
      dom = [S >= n * tm[1], S <= n * tm[2]]
      bias_terms = [(z3.IntVal(0), 0)]
      if bq is not None and getattr(layer, "use_bias", True):
        kb = kind_of(bq)
        if kb == "fixed":
          tb = trange(bq, qi)
          cb = z3.Int("cb")
          dom += [cb >= tb[1], cb <= tb[2]]
          bias_terms = [(cb, tb[0])]
        elif kb.startswith("po2"):
          mn, mx = qi.get_exp(bq)
          sb = z3.Int("sb")
          dom.append(z3.Or(sb == 1, sb == -1) if bq.is_signed else sb == 1)
          eb = z3.Int("eb")
          dom += [eb >= -int(mn), eb <= int(mx)]
          bias_terms = [(sb, None)]
          g0 = min(g0, -int(mn))
      # total on the common grid
      if bias_terms[0][1] is None:
        btot = z3.Sum([z3.If(eb == k, sb * (2 ** (k - g0)), 0) for k in range(-int(mn), int(mx) + 1)])
      else:
        gb = bias_terms[0][1]
        g0 = min(g0, gb)
        btot = bias_terms[0][0] * (2 ** (gb - g0))
      # kernels with an auto power-of-two scale: the weight values are scale_c * code; the entry to check is the scale-adjusted
      # ("fused") accumulator, for every channel's recorded scale
      kq = layer.get_quantizers()[0]
      shifts = [0]
      if getattr(kq, "alpha", None) == "auto_po2" and item.get("fused_accumulator") is not None:
        sc = np.asarray(kq.scale, dtype=np.float64).reshape(-1)
        lg = np.log2(sc)
        if not np.all(lg == np.round(lg)):
          run.inconclusive_("%s: recorded auto_po2 scale is not a power of two: %s" % (tag, sc.tolist()))
          continue
        shifts = sorted(set(int(v) for v in lg))
        acc = item["fused_accumulator"].output
        meta = dict(meta, accumulator=tdesc(acc), auto_po2_shifts=shifts, entry="fused_accumulator")
      g0 = min(g0, tm[0] + min(shifts))
      K = z3.Int("shift")
      dom.append(z3.Or(*[K == k for k in shifts]))
      scaled = z3.Sum([z3.If(K == k, S * (2 ** (tm[0] + k - g0)), 0) for k in shifts])
      if bias_terms[0][1] is None:
        btot = z3.Sum([z3.If(eb == k, sb * (2 ** (k - g0)), 0) for k in range(-int(mn), int(mx) + 1)])
      else:
        btot = bias_terms[0][0] * (2 ** (bias_terms[0][1] - g0))
      total = scaled + btot
      mem, inb = qtypes.member_fixed(total, z3.IntVal(g0), acc.bits, acc.int_bits, acc.is_signed) if kind_of(acc) == "fixed" else (None, None)
      if mem is None:
        run.aux.setdefault("non_fixed_accumulators", []).append(tag)
        continue
      v, mdl = harness.z3_query(run, "map_%s_%s_sum" % (mname, layer.name), dom + [inb], [z3.Not(mem)], dict(meta, clause="map_accumulator"))
      if mdl is not None:
        ok, detail = replay_map(dict(rep, part="sum"))
        if ok:
          run.violation(dict(clause="datatype_map", part="accumulator", layer_class=type(layer).__name__), dict(meta, **detail), dict(rep, part="sum"))
        else:
          run.inconclusive_("%s: accumulator counterexample does not reproduce: %s" % (tag, str(detail)[:200]))
      run.configs.append("map:" + tag)


def replay_map(rep):
  """re-runs the real QTools on the model and evaluates the extreme products / sums with exact rationals"""
  from fractions import Fraction
  from .. import legacy_keras
  from . import c16, c17
  legacy_keras.install()
  Q = layers.qk()
  from qkeras.qtools import run_qtools
  qi = c16.mods()[2]
  mk = [m for m in map_models() if m[0] == rep["model"]][0]
  model = mk[1]()
  qt = run_qtools.QTools(model, process="horowitz", source_quantizers=[Q.quantizers.get_quantizer(mk[2])], is_inference=False, weights_path=None,
                         keras_quantizer="fp32", keras_accumulator="fp32", for_reference=False)
  item = [v for l, v in qt._layer_map["layer_data_type_map"].items() if l.name == rep["layer"]][0]
  layer = model.get_layer(rep["layer"])
  xin, wq, bq = item["input_quantizer_list"][0], item["weight_quantizer"], item["bias_quantizer"]
  mult, acc = item["multiplier"].output, item["accumulator"].output

  def extremes(t):
    g, lo, hi = trange(t, qi)
    return [Fraction(lo) * Fraction(2) ** g, Fraction(hi) * Fraction(2) ** g]
  xs, ws = extremes(xin), extremes(wq)
  prods = [a * b for a in xs for b in ws]
  n = fan_in(layer, tuple(item["w_shapes"]))
  bs = extremes(bq) if (bq is not None and getattr(layer, "use_bias", True)) else [Fraction(0)]
  kq = layer.get_quantizers()[0]
  scales = [Fraction(1)]
  if getattr(kq, "alpha", None) == "auto_po2" and item.get("fused_accumulator") is not None:
    scales = [Fraction(float(v)) for v in sorted(set(np.asarray(kq.scale, dtype=np.float64).reshape(-1).tolist()))]
    acc = item["fused_accumulator"].output
  sums = [s_ * n * p + b for s_ in scales for p in (min(prods), max(prods)) for b in bs]
  bad = [s for s in sums if not c16.representable(acc, s)]
  return bool(bad), dict(fan_in=n, extreme_sums=[str(s) for s in sums], not_representable=[str(s) for s in bad])


def replay_concrete(rep):
  if rep.get("clause") == "datatype_map":
    return replay_map(rep)
  from qkeras import estimate
  Q = layers.qk()
  m = rep["model"]
  kshape = tuple(rep["kernel"])
  kw = rep["kw"]
  kw2 = dict(kw)
  if "kernel_size" in kw2 and isinstance(kw2["kernel_size"], list):
    kw2["kernel_size"] = tuple(kw2["kernel_size"])
  L = getattr(Q, rep["layer"])(name="lay", **kw2)
  L.build((None,) + tuple(rep["sample"]))
  K = np.zeros(kshape, dtype=np.float64)
  for idx in np.ndindex(*kshape):
    K[idx] = _val(m, "k" + "_".join(map(str, idx)))
  ws = [K]
  nout = kshape[-1]
  if kw.get("use_bias"):
    B = np.array([_val(m, "b%d" % j) for j in range(nout)])
    ws.append(B)
  L.get_weights = lambda: ws
  model = type("Model", (object,), {})()
  model.layers = [L]
  xmin, xmax = _val(m, "x_min"), _val(m, "x_max")
  real_unfold = estimate.unfold_model
  estimate.unfold_model = lambda mm: mm
  try:
    acc = estimate.analyze_accumulator(model, {"lay": (xmin, xmax)})["lay"]
  except Exception as e:  # pylint: disable=broad-except
    return False, dict(error=repr(e)[:200])
  finally:
    estimate.unfold_model = real_unfold
  taps = list(np.ndindex(*kshape[:-1]))
  worst, wj = 0.0, None
  for j in range(nout):
    # exact worst case of |sum x_t k_tj + b_j| over the box: choose each x_t at the end that helps
    hi = sum(max(xmin * K[t + (j,)], xmax * K[t + (j,)]) for t in taps) + (ws[1][j] if len(ws) > 1 else 0.0)
    lo = sum(min(xmin * K[t + (j,)], xmax * K[t + (j,)]) for t in taps) + (ws[1][j] if len(ws) > 1 else 0.0)
    if max(abs(hi), abs(lo)) > worst:
      worst, wj = max(abs(hi), abs(lo)), j
  why = None
  if worst > 2.0 ** acc * (1 + 1e-9):
    why = "bias" if (len(ws) > 1 and abs(ws[1][wj]) > 0) else ("channel_not_analysed" if (len(kshape) > 2 and wj >= kshape[1]) else "other")
  return worst > 2.0 ** acc * (1 + 1e-9), dict(kernel=K.tolist(), bias=(ws[1].tolist() if len(ws) > 1 else None), x_range=[xmin, xmax], accumulator_bits=int(acc),
                                               worst_output_magnitude=worst, channel=wj, why=why)


def replay(body):
  ok, detail = replay_concrete(body["replay"])
  print("replay:", str(detail)[:600], "-> violation reproduced" if ok else "-> not reproduced")
  return ok


def run(tier, seed):
  r = harness.Run(PROP, "model_checking", tier, seed)
  cases = CASES if tier == "thorough" else [CASES[0], CASES[1], CASES[4]]
  for i, (qcls, kw, sample, kshape) in enumerate(cases):
    try:
      one(r, i, qcls, kw, sample, kshape)
    except Exception as e:  # pylint: disable=broad-except
      import traceback
      traceback.print_exc()
      r.inconclusive_("harness error on %s: %r" % (qcls, e))
  try:
    map_part(r)
  except Exception as e:  # pylint: disable=broad-except
    import traceback
    traceback.print_exc()
    r.inconclusive_("harness error in the data-type-map part: %r" % (e,))
  r.functions = ["qtools.run_qtools.QTools.__init__ -> qgraph.CreateGraph, generate_layer_data_type_map (dense / conv / depthwise branches), "
                 "MultiplierFactory, AccumulatorFactory, IAdder on real models (legacy Keras attributes stubbed)",
                 "estimate.analyze_accumulator (on real QDense / QConv2D / QConv1D layer objects whose get_weights() returns arrays of symbolic reals)"]
  r.bounds = ["dense kernels 2x2 and 3x1, conv kernels 1x2x1x2, 1x1x2x2 and 2x1x2, with and without bias; weights in [-8,8], input range inside [-64,64] - all symbolic reals",
              "oracle: for every input in the range and every output channel, |sum x*k + b| <= 2^(returned accumulator size)",
              "data-type map: four real models (dense stack, conv2d/depthwise/dense stack, conv1d stack, non-square depthwise kernels; fixed-point / ternary / binary / po2 weights, "
              "fixed-point / po2 biases, signed and unsigned activations): per weight layer the solver decides that every sum of fan-in products "
              "(input-type value x weight-type value) plus a bias-type value is a value of the reported accumulator type (sign, integer and "
              "fraction bits); counterexamples are replayed with exact rationals at the extreme codes",
              "one model with an auto_po2 kernel (recorded scales 4, 2, 1/8): the scale-adjusted accumulator entry holds scale_c * sum + bias for every channel",
              "NOT covered: batch-norm fused entries, analyze_accumulator_from_sample; "
              "'every weight tensor fits its reported type' is covered by C16's conversion link only; "
              "executions in which the estimator takes log2 of a non-positive bound (all-zero weights)"]
  r.assumptions = ["unfold_model is cut to the identity (it aborts under the pinned Keras 3)", "ceil(log2 n) contract", "weights are taken as the layer reports them (get_weights)"]
  r.trusted = ["z3 (NRA)", "vf.pysym proxies and shims"]
  return r.finish("analyze_accumulator runs on real layer objects with symbolic weights and a symbolic input range (all feasible paths); for each path "
                  "the solver searches an input inside the range and a channel whose pre-activation magnitude exceeds 2^size.  Counterexamples are "
                  "replayed with concrete weights and the exact worst-case input.")
