"""C14 - exported quantized weights equal the inference weights and rebuild from their hardware form.

Reach.  `model_save_quantized_weights` starts with `find_bn_fusing_layer_pair` -> qgraph, which needs six legacy Keras
attributes (vf/legacy_keras.py supplies them as environment stubs); after that the body is eager NumPy glue around
`K.eval(quantizer(weight))`.  The glue is executed by engine B: the real function runs on a model proxy whose layers
return arrays of z3-backed reals, `quantizer(weight)` returns a fresh symbolic array constrained by the quantizer's
*value-set contract* (assume-guarantee: the contracts are what C01 / C03 / C05 decide on the quantizers themselves), and
`tf.constant` / `K.eval` / `K.cast_to_floatx` are identity stubs on symbolic arrays.  Every path of the export is then
queried for the clauses below; counterexamples are replayed on the *real* export of a real model.

Claimed clauses: (once) every quantized layer receives exactly [q_i(w_i)] through one set_weights call, unquantized slots
pass through; (same) dictionary entries of ordinary quantizers are the stored weights; (po2) sign * 2^exponent = stored
weight with sign in {-1,+1}; (auto_po2) scale * integer weight = stored weight, integers inside the declared bit range; (aligned) the per-weight lists
'signs' / 'scales' have an entry at the index of every weight that needs one.
Not covered: batch-norm fusing entries (QBatchNormalization cannot be constructed under the pinned Keras), pooling
entries, folded layers, the hdf5 file, 'predictions unchanged / second export changes nothing' (they follow from the
idempotence of the quantizers, C02/C03/C05, and are not re-derived here), clone_model_and_freeze_auto_po2_scale.
"""
import importlib
import numpy as np
import z3

from .. import harness, pysym, layers
from ..pysym import SymReal, SymInt, lift

PROP = "C14"
PO2_E = (-8, 8)          # exponent range of the po2 contract
SCALE_K = (-4, 4)        # exponent range of the auto_po2 scale contract


def sym_arr(shape, mk):
  a = np.empty(shape, dtype=object)
  for idx in np.ndindex(*shape):
    a[idx] = mk(idx)
  return a


class QuantProxy(object):
  """a real quantizer object whose __call__ is replaced by its value-set contract (attributes are forwarded)"""

  def __init__(self, real, tag, out_channels):
    object.__setattr__(self, "_real", real)
    object.__setattr__(self, "_tag", tag)
    object.__setattr__(self, "_calls", [])
    object.__setattr__(self, "_facts", [])
    object.__setattr__(self, "_nch", out_channels)
    object.__setattr__(self, "_scale", None)
    object.__setattr__(self, "_desc", {})

  def __getattr__(self, k):
    if k == "scale" and self._scale is not None:
      return self._scale
    return getattr(self._real, k)

  def __bool__(self):
    return True

  def __str__(self):
    return str(self._real)

  @property
  def __class__(self):       # q_name falls back to quantizer.__class__.__name__
    return type(self._real)

  def __call__(self, x):
    real, tag = self._real, self._tag
    cn = type(real).__name__
    shape = np.shape(x)
    desc = dict(kind=cn, shape=list(shape))
    if cn in ("quantized_po2", "quantized_relu_po2"):
      def mk(idx):
        n = tag + "_" + "_".join(map(str, idx))
        e, s = z3.Int("e_" + n), z3.Int("s_" + n)
        pysym.fact(z3.And(e >= PO2_E[0], e <= PO2_E[1], z3.Or(s == 1, s == -1) if cn == "quantized_po2" else s == 1))
        return SymReal(z3.ToReal(s) * pysym.pow2_expr(e, PO2_E[0], PO2_E[1]))
      out = sym_arr(shape, mk)
    elif cn == "quantized_bits" and getattr(real, "alpha", None) == "auto_po2":
      bits, integer, kn = int(real.bits), int(real.integer), int(bool(real.keep_negative))
      ub = bits - kn
      ks = [z3.Int("k_%s_%d" % (tag, c)) for c in range(shape[-1])]
      for k in ks:
        pysym.fact(z3.And(k >= SCALE_K[0], k <= SCALE_K[1]))
      scales = [pysym.pow2_expr(k, SCALE_K[0], SCALE_K[1]) for k in ks]

      def mk(idx):
        n = tag + "_" + "_".join(map(str, idx))
        c = z3.Int("code_" + n)
        # the auto branch of quantized_bits is symmetric: |code| <= 2^(bits-1) - 1 whatever keep_negative says (C05); for an unsigned
        # quantizer only non-negative weights are considered here (negative ones would leave the declared range in the quantizer itself)
        top = 2 ** (bits - 1) - 1
        pysym.fact(z3.And(c >= (-top if kn else 0), c <= top))
        from fractions import Fraction
        step = Fraction(2) ** (integer - ub)
        return SymReal(scales[idx[-1]] * z3.ToReal(c) * z3.Q(step.numerator, step.denominator))
      out = sym_arr(shape, mk)
      sc = np.empty((1,) * (len(shape) - 1) + (shape[-1],), dtype=object)
      for c in range(shape[-1]):
        sc[(0,) * (len(shape) - 1) + (c,)] = SymReal(scales[c])
      object.__setattr__(self, "_scale", sc)
      desc.update(bits=bits, integer=integer, keep_negative=kn)
    else:
      # any other quantizer: an arbitrary real per element (its own value set is irrelevant to the export's arithmetic)
      out = sym_arr(shape, lambda idx: SymReal(z3.Real("q_" + tag + "_" + "_".join(map(str, idx)))))
    self._calls.append((x, out))
    object.__setattr__(self, "_desc", desc)
    return out


def layer_proxy(cls_name, name, quantizers, wshapes, has_quantizers=True):
  """an object whose class is *named* like the real layer class (the export dispatches on the class name)"""
  ns = dict(name=name)
  P = type(cls_name, (object,), {})
  p = P()
  p.name = name
  p.recorded = []
  p.raw = [sym_arr(s, lambda idx, i=i: SymReal(z3.Real("w_%s_%d_%s" % (name, i, "_".join(map(str, idx)))))) for i, s in enumerate(wshapes)]
  p.get_weights = lambda: list(p.raw)
  p.set_weights = lambda ws: p.recorded.append(list(ws))
  if has_quantizers:
    p.qs = [QuantProxy(q, "%s_%d" % (name, i), s[-1]) if q is not None else None for i, (q, s) in enumerate(zip(quantizers, wshapes))]
    p.get_quantizers = lambda: list(p.qs)
  return p


CASES = [
    # (case name, [(layer class, layer name, [quantizer strings or None], [weight shapes])])
    ("po2_kernel", [("QDense", "d1", ["quantized_po2(4)", "quantized_bits(4,0,1)"], [(2, 1), (1,)])]),
    ("auto_po2_kernel", [("QDense", "d1", ["quantized_bits(4,0,1,alpha='auto_po2')", "quantized_relu_po2(4)"], [(2, 2), (2,)])]),
    ("binary_kernel_plain_bias", [("QConv2D", "c1", ["binary(alpha=1)", None], [(1, 1, 1, 2), (2,)])]),
    ("auto_po2_unsigned_kernel", [("QDense", "d1", ["quantized_bits(4,1,0,keep_negative=False,alpha='auto_po2')", None], [(2, 1), (1,)])]),
    ("po2_kernel_auto_po2_bias", [("QDense", "d1", ["quantized_po2(4)", "quantized_bits(4,0,1,alpha='auto_po2')"], [(1, 1), (1,)])]),
    ("auto_po2_kernel_po2_bias", [("QDense", "d1", ["quantized_bits(4,0,1,alpha='auto_po2')", "quantized_po2(4)"], [(1, 1), (1,)])]),
    ("po2_kernel_relu_po2_bias", [("QDense", "d1", ["quantized_po2(4)", "quantized_relu_po2(4)"], [(1, 1), (1,)])]),
    ("two_layers", [("QDense", "d1", ["quantized_bits(4,0,1,alpha=1)", "quantized_po2(4)"], [(1, 1), (1,)]), ("Dense", "plain", None, [(1, 1), (1,)]),
                    ("QDense", "d2", ["ternary(alpha=1)", None], [(1, 2), (2,)])]),
]


def build(case_layers):
  Q = layers.qk()
  ls = []
  for cls, name, qstrs, shapes in case_layers:
    if qstrs is None:
      ls.append(layer_proxy(cls, name, None, shapes, has_quantizers=False))
    else:
      ls.append(layer_proxy(cls, name, [Q.quantizers.get_quantizer(s) if s else None for s in qstrs], shapes))
  M = type("Model", (object,), {})
  m = M()
  m.layers = ls
  m.get_layer = lambda n: [l for l in ls if l.name == n][0]
  return m


class _KShim(object):
  def __init__(self, real):
    self._real = real

  def __getattr__(self, k):
    return getattr(self._real, k)

  def cast_to_floatx(self, x):
    if isinstance(x, np.ndarray) and x.dtype == object:
      return x
    if pysym._is_sym(x):
      return x
    return float(x) if np.ndim(x) == 0 else self._real.cast_to_floatx(x)

  def pow(self, a, b):
    return a ** b


class _TFShim(object):
  """tf.constant / tf.keras.backend.eval are the identity on symbolic arrays (the environment's tensor conversion)"""

  def __init__(self, real):
    self._real = real

    class _B(object):
      @staticmethod
      def eval(x):
        return x

    class _Kx(object):
      backend = _B()
    self.keras = _Kx()

  def __getattr__(self, k):
    return getattr(self._real, k)

  def constant(self, x, *a, **k):
    return x


def as_real(v):
  if isinstance(v, (SymReal, SymInt)):
    e = lift(v)
    return z3.ToReal(e) if not z3.is_real(e) else e
  return z3.RealVal(str(float(v))) if not isinstance(v, int) else z3.RealVal(v)


def flat(a):
  a = np.asarray(a, dtype=object)
  return list(a.reshape(-1))


def one_case(run, cname, case_layers):
  U = importlib.import_module("qkeras.utils")

  def fn():
    m = build(case_layers)
    d = U.model_save_quantized_weights(m)
    return m, d
  import tensorflow as tf
  import tensorflow.keras.backend as K
  real_find = U.find_bn_fusing_layer_pair
  try:
    with pysym.shadow(U, tf=_TFShim(tf), K=_KShim(K), find_bn_fusing_layer_pair=lambda m, co={}: ({}, set())):
      paths, limits = pysym.explore(fn, base=[], max_paths=2000)
  except pysym.PathLimit as e:
    run.inconclusive_("%s: %s" % (cname, e))
    return
  finally:
    U.find_bn_fusing_layer_pair = real_find
  for pc, why in limits:
    run.inconclusive_("path limit in the export (%s): %s" % (cname, why))
  run.aux["paths_" + cname] = len(paths)
  for pi, (pc, (m, d), facts) in enumerate(paths):
    for L in m.layers:
      meta = dict(case=cname, layer=L.name, path=pi)
      if not hasattr(L, "get_quantizers"):
        # untouched: no set_weights, no dictionary entry
        run.concrete_checks += 1
        if L.recorded or L.name in d:
          run.violation(dict(clause="unquantized_layer_touched", case=cname), meta, dict(clause="unquantized_layer_touched", case=cname))
        continue
      # (once) exactly one set_weights call with [q_i(w_i)] (the very objects the quantizers returned) / the raw weight
      run.concrete_checks += 1
      ok = len(L.recorded) == 1 and len(L.recorded[0]) == len(L.raw)
      if ok:
        for i, (q, got) in enumerate(zip(L.qs, L.recorded[0])):
          if q is None:
            ok = ok and got is L.raw[i]
          else:
            ok = ok and len(q._calls) == 1 and q._calls[0][0] is L.raw[i] and got is q._calls[0][1]
      if not ok:
        rep = dict(clause="quantized_once", case=cname, layer=L.name)
        okr, detail = replay_once(rep)
        if okr:
          run.violation(dict(clause="quantized_once", case=cname), dict(meta, set_weights_calls=len(L.recorded), **detail), rep)
        else:
          run.inconclusive_("%s/%s: the proxy run does not store [q_i(w_i)] but the real export does: %s" % (cname, L.name, str(detail)[:200]))
        continue
      ent = d.get(L.name)
      if ent is None or len(ent.get("weights", [])) != len(L.raw):
        run.violation(dict(clause="dictionary_entry", case=cname), meta, dict(clause="dictionary_entry", case=cname, layer=L.name))
        continue
      # per-weight lists of the entry are aligned with the weights: one slot per weight, empty where it does not apply
      run.concrete_checks += 1
      need = {"signs": [i for i, q in enumerate(L.qs) if q is not None and q._desc.get("kind") == "quantized_po2"],
              "scales": [i for i, q in enumerate(L.qs) if q is not None and q._scale is not None]}
      misaligned = [k for k in ("signs", "scales") if need[k] and (k not in ent or len(ent[k]) <= max(need[k]))]
      if misaligned:
        rep = dict(clause="entry_lists_aligned", case=cname, layer=L.name)
        okr, detail = replay_aligned(rep)
        if okr:
          run.violation(dict(clause="entry_lists_aligned", case=cname), dict(meta, lists=misaligned, **detail), rep)
        else:
          run.inconclusive_("%s/%s: %s misaligned in the proxy run but not in the real export" % (cname, L.name, misaligned))
        continue
      for i, q in enumerate(L.qs):
        stored = L.recorded[0][i]
        hw = ent["weights"][i]
        kind = q._desc.get("kind") if q is not None else None
        if kind in ("quantized_po2", "quantized_relu_po2"):
          signs = ent.get("signs", None)
          if kind == "quantized_po2" and signs is None:
            run.violation(dict(clause="po2_signs_missing", case=cname), meta, dict(clause="po2", case=cname, layer=L.name, slot=i))
            continue
          sg = flat(signs[i]) if signs is not None else [1] * len(flat(stored))
          bad = []
          for s_, h_, w_ in zip(sg, flat(hw), flat(stored)):
            he = lift(h_) if pysym._is_sym(h_) else z3.IntVal(int(h_))
            he = z3.ToInt(he) if z3.is_real(he) else he
            bad.append(z3.Or(as_real(s_) * pysym.pow2_expr(he, PO2_E[0] - 2, PO2_E[1] + 2) != as_real(w_), z3.Not(z3.Or(as_real(s_) == 1, as_real(s_) == -1))))
          v, mdl = harness.z3_query(run, "%s_%s_slot%d_po2_p%d" % (cname, L.name, i, pi), list(pc), [z3.Or(*bad)], dict(meta, clause="po2_rebuild", slot=i))
          report(run, mdl, "po2_rebuild", cname, case_layers, L.name, i)
        elif kind == "quantized_bits" and q._scale is not None:
          scales = ent.get("scales", None)
          if scales is None:
            run.violation(dict(clause="auto_po2_scales_missing", case=cname), meta, dict(clause="auto_po2", case=cname, layer=L.name, slot=i))
            continue
          desc = q._desc
          ub = desc["bits"] - desc["keep_negative"]
          sc = np.broadcast_to(np.asarray(scales[i], dtype=object), np.shape(stored))
          bad_eq, bad_rng = [], []
          for s_, h_, w_ in zip(flat(sc), flat(hw), flat(stored)):
            bad_eq.append(as_real(s_) * as_real(h_) != as_real(w_))
            hr = as_real(h_)
            bad_rng.append(z3.Or(z3.ToReal(z3.ToInt(hr)) != hr, hr < -desc["keep_negative"] * 2 ** ub, hr > 2 ** ub - 1))
          # two regions per clause: all channel scales equal to 1, and some scale different from 1.  On the unchanged tree the export
          # is right for unit scales and wrong otherwise (recorded finding): keeping the regions apart means that the finding does not
          # hide a change that breaks the unit-scale case as well
          ks = [z3.Int("k_%s_%d_%d" % (L.name, i, c_)) for c_ in range(np.shape(stored)[-1])]
          regions = (("unit_scale", z3.And(*[k == 0 for k in ks])), ("non_unit_scale", z3.Or(*[k != 0 for k in ks])))
          for rname, rcond in regions:
            v, mdl = harness.z3_query(run, "%s_%s_slot%d_scale_times_int_%s_p%d" % (cname, L.name, i, rname, pi), list(pc) + [rcond], [z3.Or(*bad_eq)],
                                      dict(meta, clause="auto_po2_rebuild", slot=i, region=rname))
            report(run, mdl, "auto_po2_rebuild", cname, case_layers, L.name, i, region=rname)
            v, mdl = harness.z3_query(run, "%s_%s_slot%d_int_range_%s_p%d" % (cname, L.name, i, rname, pi), list(pc) + [rcond], [z3.Or(*bad_rng)],
                                      dict(meta, clause="auto_po2_integer_range", slot=i, region=rname))
            report(run, mdl, "auto_po2_integer_range", cname, case_layers, L.name, i, region=rname)
        else:
          # ordinary quantizer or no quantizer: the dictionary carries the stored weight itself
          run.concrete_checks += 1
          if hw is not stored:
            bad = [as_real(a) != as_real(b_) for a, b_ in zip(flat(hw), flat(stored))]
            v, mdl = harness.z3_query(run, "%s_%s_slot%d_same_p%d" % (cname, L.name, i, pi), list(pc), [z3.Or(*bad)], dict(meta, clause="dictionary_equals_stored", slot=i))
            report(run, mdl, "dictionary_equals_stored", cname, case_layers, L.name, i)
  run.configs.append("%s (%d paths)" % (cname, len(paths)))


def report(run, mdl, clause, cname, case_layers, lname, slot, region=None):
  if mdl is None:
    return
  rep = dict(clause=clause, case=cname, layer=lname, slot=slot, model=mdl)
  ok, detail = replay_concrete(rep)
  if ok:
    sig = dict(clause=clause, quantizer=detail.get("quantizer"))
    if region:
      sig["region"] = region
    run.violation(sig, detail, rep)
  else:
    run.inconclusive_("%s/%s slot %d: counterexample of %s does not reproduce on the real export: %s" % (cname, lname, slot, clause, str(detail)[:300]))


def real_model(case_layers, values):
  """a real Keras-3 qkeras model with the same layers; weights = values[(layer, slot)] (numpy arrays)"""
  keras = layers.K3()
  Q = layers.qk()
  cls, name, qstrs, shapes = case_layers[0]
  inp = None
  y = None
  for cls, name, qstrs, shapes in case_layers:
    kshape = shapes[0]
    if cls in ("QDense", "Dense"):
      if inp is None:
        inp = keras.Input((kshape[0],), name="in")
        y = inp
      if cls == "QDense":
        y = Q.QDense(kshape[1], kernel_quantizer=qstrs[0], bias_quantizer=qstrs[1], name=name)(y)
      else:
        y = keras.layers.Dense(kshape[1], name=name)(y)
    elif cls == "QConv2D":
      if inp is None:
        inp = keras.Input((2, 2, kshape[2]), name="in")
        y = inp
      y = Q.QConv2D(kshape[3], kshape[:2], kernel_quantizer=qstrs[0], bias_quantizer=qstrs[1], name=name)(y)
  m = keras.Model(inp, y)
  for cls, name, qstrs, shapes in case_layers:
    L = m.get_layer(name)
    L.set_weights([values.get((name, i), np.zeros(s, dtype=np.float32)) for i, s in enumerate(shapes)])
  return m


def replay_once(rep):
  """real export of a real model with random weights: afterwards every quantized layer holds exactly q_i(w_i)"""
  from .. import legacy_keras
  import tensorflow as tf
  legacy_keras.install()
  U = importlib.import_module("qkeras.utils")
  case_layers = [c for c in CASES if c[0] == rep["case"]][0][1]
  rs = np.random.RandomState(7)
  values = {(name, i): (rs.randn(*s) * 0.7).astype(np.float32) for cls, name, qstrs, shapes in case_layers for i, s in enumerate(shapes)}
  m = real_model(case_layers, values)
  U.model_save_quantized_weights(m)
  L = m.get_layer(rep["layer"])
  bad = []
  for i, q in enumerate(L.get_quantizers()[:len(L.get_weights())]):
    want = np.asarray(q(tf.constant(values[(L.name, i)]))) if q is not None else values[(L.name, i)]
    got = L.get_weights()[i]
    if not np.array_equal(want, got):
      bad.append(dict(slot=i, given=values[(L.name, i)].tolist(), expected=want.tolist(), stored=got.tolist()))
  return bool(bad), dict(slots=bad)


def replay_aligned(rep):
  """real export of a real model with random weights: 'signs' / 'scales' have one slot per weight"""
  from .. import legacy_keras
  legacy_keras.install()
  U = importlib.import_module("qkeras.utils")
  case_layers = [c for c in CASES if c[0] == rep["case"]][0][1]
  rs = np.random.RandomState(11)
  values = {(name, i): (rs.randn(*s) * 0.7).astype(np.float32) for cls, name, qstrs, shapes in case_layers for i, s in enumerate(shapes)}
  m = real_model(case_layers, values)
  d = U.model_save_quantized_weights(m)
  L = m.get_layer(rep["layer"])
  ent = d[L.name]
  n = len(L.get_weights())
  lens = {k: len(ent[k]) for k in ("signs", "scales") if k in ent}
  qs = L.get_quantizers()[:n]
  need = {"signs": [i for i, q in enumerate(qs) if type(q).__name__ == "quantized_po2"],
          "scales": [i for i, q in enumerate(qs) if type(q).__name__ == "quantized_bits" and getattr(q, "alpha", None) == "auto_po2"]}
  bad = [k for k in need if need[k] and lens.get(k, 0) <= max(need[k])]
  return bool(bad), dict(weights=n, list_lengths=lens, slots_needing_an_entry=need, missing=bad)


def replay_concrete(rep):
  """the real export (legacy Keras attributes stubbed) on a real model whose weights are the solver's quantized values"""
  from .. import legacy_keras
  from fractions import Fraction
  legacy_keras.install()
  U = importlib.import_module("qkeras.utils")
  if rep["clause"] == "quantized_once":
    return replay_once(rep)
  if rep["clause"] == "entry_lists_aligned":
    return replay_aligned(rep)
  case_layers = [c for c in CASES if c[0] == rep["case"]][0][1]
  mdl = rep["model"]
  values = {}

  def val(name):
    v = mdl.get(name)
    if v is None:
      return None
    return float(Fraction(v[0], v[1])) if isinstance(v, list) else float(v)
  for cls, name, qstrs, shapes in case_layers:
    for i, s in enumerate(shapes):
      arr = np.zeros(s, dtype=np.float32)
      for idx in np.ndindex(*s):
        tag = "%s_%d_%s" % (name, i, "_".join(map(str, idx)))
        e, sg, code, k = val("e_" + tag), val("s_" + tag), val("code_" + tag), val("k_%s_%d_%d" % (name, i, idx[-1]))
        q = qstrs[i] if qstrs else None
        if e is not None:
          arr[idx] = (sg if sg is not None else 1.0) * 2.0 ** e
        elif code is not None and q is not None and "auto_po2" in q:
          Q = layers.qk()
          qq = Q.quantizers.get_quantizer(q)
          arr[idx] = 2.0 ** (k or 0) * code * 2.0 ** (int(qq.integer) - (int(qq.bits) - int(bool(qq.keep_negative))))
        else:
          arr[idx] = val("q_" + tag) or val("w_" + tag) or 0.0
      values[(name, i)] = arr
  m = real_model(case_layers, values)
  d = U.model_save_quantized_weights(m)
  L = m.get_layer(rep["layer"])
  slot = rep["slot"]
  stored = np.asarray(L.get_weights()[slot], dtype=np.float64)
  ent = d[L.name]
  hw = np.asarray(ent["weights"][slot], dtype=np.float64)
  q = L.get_quantizers()[slot]
  detail = dict(quantizer=str(q), given_weights=values[(L.name, slot)].tolist(), stored=stored.tolist(), dictionary_weights=hw.tolist())
  cl = rep["clause"]
  if cl == "po2_rebuild":
    sg = np.asarray(ent["signs"][slot], dtype=np.float64) if "signs" in ent else np.ones_like(hw)
    detail["signs"] = sg.tolist()
    return bool(np.any(sg * 2.0 ** hw != stored) or np.any(np.abs(sg) != 1)), detail
  if cl in ("auto_po2_rebuild", "auto_po2_integer_range"):
    sc = np.asarray(ent["scales"][slot], dtype=np.float64)
    detail["scales"] = sc.tolist()
    if cl == "auto_po2_rebuild":
      return bool(np.any(sc * hw != stored)), detail
    ub = int(q.bits) - int(bool(q.keep_negative))
    return bool(np.any(hw != np.round(hw)) or np.any(hw < -int(bool(q.keep_negative)) * 2 ** ub) or np.any(hw > 2 ** ub - 1)), dict(detail, integer_range=[-int(bool(q.keep_negative)) * 2 ** ub, 2 ** ub - 1])
  if cl == "dictionary_equals_stored":
    return bool(np.any(hw != stored)), detail
  return False, detail


def replay(body):
  ok, detail = replay_concrete(body["replay"])
  print("replay:", str(detail)[:800], "-> violation reproduced" if ok else "-> not reproduced")
  return ok


def run(tier, seed):
  r = harness.Run(PROP, "model_checking", tier, seed)
  cases = CASES if tier == "thorough" else CASES[:7]
  for cname, case_layers in cases:
    try:
      one_case(r, cname, case_layers)
    except Exception as e:  # pylint: disable=broad-except
      import traceback
      traceback.print_exc()
      r.inconclusive_("harness error on %s: %r" % (cname, e))
  r.functions = ["utils.model_save_quantized_weights (main loop: quantize, hardware split for *_po2 and quantized_bits(alpha='auto_po2'), set_weights, dictionary assembly)"]
  r.bounds = ["%d layer configurations (dense / conv class names; po2, relu_po2, auto_po2, binary, ternary, fixed-point, absent quantizers), weight tensors "
              "of 1-4 elements, all weight values symbolic" % len(cases),
              "quantizer outputs are symbolic values constrained by value-set contracts: po2 = +-2^e with e in [%d,%d]; auto_po2 = 2^k * code * "
              "2^(integer-bits+1) with k in [%d,%d] and the code in the declared range; other quantizers = arbitrary reals" % (PO2_E + SCALE_K),
              "NOT covered: batch-norm fusing entries (QBatchNormalization cannot be constructed under the pinned Keras), pooling entries, folded layers, "
              "the hdf5 file, 'predictions unchanged' and 'a second export changes nothing' (consequences of quantizer idempotence: C02/C03/C05), "
              "clone_model_and_freeze_auto_po2_scale, get_model_sparsity"]
  r.assumptions = ["assume-guarantee: the value-set contracts stand for the real quantizers (decided for the quantizers themselves by C01/C03/C05); the "
                   "replay runs the real quantizers", "tf.constant / K.eval / K.cast_to_floatx are identity stubs on symbolic arrays; find_bn_fusing_layer_pair "
                   "returns 'no pairs' in the symbolic run", "np.log2 contract (exact on powers of two), legacy Keras attributes (vf/legacy_keras.py) in the replay",
                   "layers are proxies named like the real classes (the export dispatches on class names)"]
  r.trusted = ["z3 (NRA/NIA with finite power-of-two tables)", "vf.pysym proxies and shims"]
  return r.finish("The real model_save_quantized_weights runs on a model proxy with symbolic weights; quantizer calls return symbolic arrays under their "
                  "value-set contracts.  On every path the solver decides that each quantized layer gets exactly [q_i(w_i)] once, that ordinary entries "
                  "of the returned dictionary are the stored weights, that sign * 2^exponent rebuilds po2 weights and that scale * integer rebuilds "
                  "auto_po2 weights with integers in the declared range.  Counterexamples are replayed on the real export of a real model.")
