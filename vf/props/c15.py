"""C15 - batch-norm folding preserves the network function at inference (layer-level clauses).

What can be reached under the pinned Keras 3: the *bodies* of QConv2DBatchnorm / QDepthwiseConv2DBatchnorm
(`__init__`, `build`, `call`, `get_folded_weights`) run unmodified once the one thing they need from the
legacy Keras - a `BatchNormalization` object with `.gamma/.beta/.moving_mean/.moving_variance/.epsilon/
.axis/_get_training_value/_moments` - is supplied as an environment stub (`BNShim`, shadowing the name
`layers` in the two modules for the duration of the check).  The model-level utilities (unfold_model,
convert_to_folded_model, model_quantize(enable_bn_folding)) clone Keras models through the legacy
functional API and abort under the pinned Keras: they are outside the claim.
"""
import importlib
import itertools
import random
import time
import numpy as np

from .. import harness, ir, tfg, equiv, evalr, layers, solve

PROP = "C15"
KINDS = {
    "conv": dict(module="qkeras.qconv2d_batchnorm", cls="QConv2DBatchnorm", stock="Conv2D", kattr="_kernel", kq="kernel_quantizer",
                 kqi="kernel_quantizer_internal"),
    "dw": dict(module="qkeras.qdepthwiseconv2d_batchnorm", cls="QDepthwiseConv2DBatchnorm", stock="DepthwiseConv2D", kattr="depthwise_kernel",
               kq="depthwise_quantizer", kqi="depthwise_quantizer_internal"),
}
QUANTS = [None, "quantized_bits(4,0,1,alpha=1)", "quantized_bits(6,1,1)", "quantized_po2(4)", "binary(alpha=1)", "ternary(alpha=1)"]
BQUANTS = [None, "quantized_bits(6,2,1,alpha=1)", "quantized_bits(8,3,1)", "quantized_po2(5,4)"]
ACTS = [None, "quantized_relu(4,1)"]
TOL = dict(rtol=2e-4, atol=2e-5)


class BNShim(object):
  """Environment stub: the surface of the legacy tf.keras BatchNormalization layer that the folded layers use.
  Contract (legacy Keras documentation / source): after build `axis` is a list of non-negative ints; gamma is None when
  scale=False and beta is None when center=False; `_get_training_value(None|bool)` returns a Python bool at inference;
  `_moments(x, axes, keep_dims)` returns the batch mean and variance over `axes`; calling the layer in inference mode has
  no effect on its moving statistics (its return value is discarded by the callers)."""

  def __init__(self, axis=-1, momentum=0.99, epsilon=1e-3, center=True, scale=True, **kw):
    self.cfg = dict(axis=axis, momentum=momentum, epsilon=epsilon, center=center, scale=scale)
    self.epsilon, self.center, self.scale, self.momentum = epsilon, center, scale, momentum
    self.axis = axis
    self.gamma = self.beta = self.moving_mean = self.moving_variance = None
    import tensorflow as tf
    self._param_dtype = tf.float32

  def build(self, shape):
    nd = len(shape)
    ax = self.axis if isinstance(self.axis, (list, tuple)) else [self.axis]
    self.axis = [a if a >= 0 else nd + a for a in ax]

  def _get_training_value(self, training=None):
    return bool(training) if training is not None else False

  def _moments(self, x, axes, keep_dims):
    import tensorflow as tf
    return tf.nn.moments(x, axes, keepdims=keep_dims)

  def __call__(self, x, training=None):
    return x

  def get_config(self):
    return dict(self.cfg)


class shim(object):
  """shadow the module-global `layers` (i.e. tensorflow.keras.layers) of the folded-layer module with a namespace whose
  BatchNormalization is the stub; everything else the module uses is untouched"""

  def __init__(self, kind):
    self.mod = importlib.import_module(KINDS[kind]["module"])

  def __enter__(self):
    self.saved = self.mod.layers
    real = self.saved

    class _NS(object):
      BatchNormalization = BNShim

      def __getattr__(self, k):
        return getattr(real, k)
    self.mod.layers = _NS()
    return self.mod

  def __exit__(self, *a):
    self.mod.layers = self.saved


def configs(tier, seed):
  """(kind, ctor kwargs, sample shape, kernel quantizer, bias quantizer, activation)"""
  geo = []
  for k, s, pad, d in itertools.product((1, 2, (2, 1)), (1, 2), ("valid", "same"), (1, 2)):
    if s > 1 and d > 1:
      continue
    geo.append(dict(kernel_size=k, strides=s, padding=pad, dilation_rate=d))
  full = []
  for kind in ("conv", "dw"):
    for g in geo:
      for mode, use_bias, center, scale in itertools.product(("ema_stats_folding", "batch_stats_folding"), (True, False), (True, False), (True, False)):
        kw = dict(g, folding_mode=mode, use_bias=use_bias, center=center, scale=scale)
        if kind == "conv":
          kw["filters"] = 2
        else:
          kw["depth_multiplier"] = 1 + (len(full) % 2)
        full.append((kind, kw, (3, 3, 1) if kind == "conv" else (3, 3, 2)))
  rr = random.Random(seed)
  core_kw = [
      ("conv", dict(filters=2, kernel_size=2, strides=1, padding="valid", dilation_rate=1, folding_mode="ema_stats_folding", use_bias=True, center=True, scale=True), (3, 3, 1)),
      ("conv", dict(filters=2, kernel_size=2, strides=1, padding="same", dilation_rate=1, folding_mode="batch_stats_folding", use_bias=False, center=True, scale=True), (3, 3, 2)),
      ("conv", dict(filters=1, kernel_size=1, strides=2, padding="valid", dilation_rate=1, folding_mode="ema_stats_folding", use_bias=True, center=True, scale=False), (3, 3, 2)),
      ("conv", dict(filters=2, kernel_size=2, strides=1, padding="valid", dilation_rate=1, folding_mode="ema_stats_folding", use_bias=True, center=True, scale=True,
                    ema_freeze_delay=10), (3, 3, 1)),
      ("dw", dict(depth_multiplier=1, kernel_size=2, strides=1, padding="valid", dilation_rate=1, folding_mode="ema_stats_folding", use_bias=True, center=True, scale=True), (3, 3, 2)),
      ("dw", dict(depth_multiplier=2, kernel_size=2, strides=1, padding="same", dilation_rate=1, folding_mode="batch_stats_folding", use_bias=False, center=True, scale=True), (3, 3, 2)),
      ("dw", dict(depth_multiplier=1, kernel_size=2, strides=2, padding="valid", dilation_rate=1, folding_mode="batch_stats_folding", use_bias=True, center=True, scale=False), (3, 3, 1)),
      ("dw", dict(depth_multiplier=1, kernel_size=2, strides=1, padding="valid", dilation_rate=1, folding_mode="batch_stats_folding", use_bias=True, center=True, scale=True,
                  ema_freeze_delay=5), (3, 3, 1)),
      ("conv", dict(filters=2, kernel_size=2, strides=1, padding="valid", dilation_rate=1, folding_mode="ema_stats_folding", use_bias=True, center=False, scale=True), (3, 3, 1)),
      ("dw", dict(depth_multiplier=1, kernel_size=2, strides=1, padding="valid", dilation_rate=1, folding_mode="ema_stats_folding", use_bias=True, center=False, scale=True), (3, 3, 1)),
  ]
  if tier == "thorough":
    geoms = core_kw + [f for f in full if f not in core_kw]
  else:
    rest = [f for f in full if f not in core_kw]
    rr.shuffle(rest)
    geoms = core_kw + rest[:6]
  out = []
  for i, (kind, kw, sample) in enumerate(geoms):
    r2 = random.Random(seed * 131 + i)
    qs = [(None, None, None), ("quantized_bits(4,0,1,alpha=1)", "quantized_bits(6,2,1,alpha=1)", None)]
    extra = 3 if tier == "thorough" else 1
    for _ in range(extra):
      qs.append((r2.choice(QUANTS), r2.choice(BQUANTS), r2.choice(ACTS)))
    for kq, bq, act in qs:
      out.append((kind, kw, sample, kq, bq, act))
  return out


class Pair(object):
  """the real folded layer (constructed through its own __init__/build with the BatchNormalization stub) and the stock
  Keras-3 convolution + BatchNormalization layers of the same geometry"""

  def __init__(self, kind, kw, sample, kq, bq, act):
    import tensorflow as tf
    K = layers.K3()
    spec = KINDS[kind]
    self.kind, self.spec, self.kw, self.sample = kind, spec, kw, tuple(sample)
    qkw = dict(kw)
    if kq is not None:
      qkw[spec["kq"]] = kq
    if bq is not None:
      qkw["bias_quantizer"] = bq
    if act is not None:
      qkw["activation"] = act
    with shim(kind):
      Q = importlib.import_module("qkeras")
      self.layer = getattr(Q, spec["cls"])(**qkw)
      self.layer.build((None,) + self.sample)
    skw = {k: v for k, v in kw.items() if k in ("filters", "kernel_size", "strides", "padding", "dilation_rate", "depth_multiplier")}
    self.stock = getattr(K.layers, spec["stock"])(use_bias=True, **skw)
    self.stock.build((None,) + self.sample)
    self.stock_nb = getattr(K.layers, spec["stock"])(use_bias=bool(kw["use_bias"]), **skw)
    self.stock_nb.build((None,) + self.sample)
    out_shape = self.stock.compute_output_shape((1,) + self.sample)
    self.channels = int(out_shape[-1])
    self.layer.batchnorm.build(tuple(out_shape))
    self.bn = K.layers.BatchNormalization(axis=-1, epsilon=self.layer.batchnorm.epsilon, center=kw["center"], scale=kw["scale"])
    self.bn.build(tuple(out_shape))
    kshape = tuple(int(d) for d in getattr(self.layer, spec["kattr"]).shape)
    C = self.channels
    self.names = ["x", "k"] + (["b"] if kw["use_bias"] else []) + (["g"] if kw["scale"] else []) + (["be"] if kw["center"] else []) + ["mm", "mv"]
    self.shapes = [(1,) + self.sample, kshape] + [(C,)] * (len(self.names) - 2)
    self.use_bias, self.center, self.scale = kw["use_bias"], kw["center"], kw["scale"]
    self.has_kq, self.has_bq, self.has_act = kq is not None, bq is not None, act is not None

  def unpack(self, ts):
    d = dict(zip(self.names, ts))
    return d["x"], d["k"], d.get("b"), d.get("g"), d.get("be"), d["mm"], d["mv"]

  def _inject(self, k, b, g, be, mm, mv):
    L = self.layer
    object.__setattr__(L, self.spec["kattr"], k)
    if self.use_bias:
      object.__setattr__(L, "bias", b)
    bn = L.batchnorm
    bn.gamma, bn.beta, bn.moving_mean, bn.moving_variance = g, be, mm, mv

  def f_call(self, *ts):
    x, k, b, g, be, mm, mv = self.unpack(ts)
    self._inject(k, b, g, be, mm, mv)
    return self.layer.call(x, training=False)

  def f_folded(self, *ts):
    """[folded_kernel, folded_bias] from the layer's own get_folded_weights()"""
    x, k, b, g, be, mm, mv = self.unpack(ts)
    self._inject(k, b, g, be, mm, mv)
    fk, fb = self.layer.get_folded_weights()
    return fk, fb

  def f_ref_quantized(self, *ts, markers=False):
    """stock convolution with q_k(folded kernel) and q_b(folded bias), then the layer's activation"""
    import tensorflow as tf
    x = ts[0]
    fk, fb = self.f_folded(*ts)
    L = self.layer
    kqi = getattr(L, self.spec["kqi"])
    if self.has_kq:
      fk = kqi(fk)
    if self.has_bq:
      fb = L.bias_quantizer_internal(fb)
    S = self.stock
    object.__setattr__(S, "_kernel" if hasattr(S, "_kernel") else "kernel", fk)
    object.__setattr__(S, "bias", fb)
    y = S.call(x)
    return L.activation(y) if self.has_act else y

  def f_formula(self, *ts):
    """the property's formulas: kernel*gamma/sqrt(var+eps), (bias-mean)*gamma/sqrt(var+eps)+beta"""
    import tensorflow as tf
    x, k, b, g, be, mm, mv = self.unpack(ts)
    eps = self.layer.batchnorm.epsilon
    s = tf.sqrt(mv + eps)
    gg = g if g is not None else tf.ones_like(mv)
    if self.kind == "dw":
      sh = [int(k.shape[2]), int(k.shape[3])]
      fk = k * tf.reshape(gg, sh) / tf.reshape(s, sh)
    else:
      fk = k * gg / s
    bias = b if b is not None else tf.zeros_like(mv)
    fb = (bias - mm) * gg / s
    if be is not None:
      fb = fb + be
    return fk, fb

  def f_conv_bn(self, *ts):
    """stock Keras-3 convolution followed by the stock Keras-3 BatchNormalization in inference mode"""
    x, k, b, g, be, mm, mv = self.unpack(ts)
    S = self.stock_nb
    object.__setattr__(S, "_kernel" if hasattr(S, "_kernel") else "kernel", k)
    if self.use_bias:
      object.__setattr__(S, "bias", b)
    y = S.call(x)
    bn = self.bn
    if self.scale:
      object.__setattr__(bn, "gamma", g)
    if self.center:
      object.__setattr__(bn, "beta", be)
    object.__setattr__(bn, "moving_mean", mm)
    object.__setattr__(bn, "moving_variance", mv)
    return bn.call(y, training=False)

  def trace(self, fn, b):
    return layers.MultiTraced(fn, self.names, self.shapes, b)

  def tensors(self, w):
    return layers.witness_tensors(w, self.names, self.shapes)


def real_equal(run, oid, outsA, outsB, inputs, positive, meta, timeout_ms=60000, margin=None):
  """exact-arithmetic equivalence: are the two term tuples equal for every real-valued input (with `positive` inputs > 0)?
  returns ("unsat"|"sat"|"unknown", witness-or-None).  sqrt / rsqrt carry their defining real constraints; uf nodes are
  uninterpreted functions (congruence only)."""
  import z3
  fa, fb = equiv.flat(outsA), equiv.flat(outsB)
  side = []
  vals, vars_ = evalr.to_z3_real(fa + fb, side=side)
  base = list(side)
  for n in positive:
    v = vars_.get(n.attr)
    if v is not None:
      base.append(v >= 0)
  diffs = []
  for a, c in zip(fa, fb):
    if a is c:
      continue
    if margin is None:
      diffs.append(vals[a.nid] != vals[c.nid])
    else:
      diffs.append(z3.Or(vals[a.nid] - vals[c.nid] > margin, vals[c.nid] - vals[a.nid] > margin))
  if not diffs:
    verdict, model = harness.z3_query(run, oid, base, [z3.BoolVal(False)], meta, timeout_ms=timeout_ms)
    return "unsat", None
  verdict, model = harness.z3_query(run, oid, base, [z3.Or(*diffs)], meta, timeout_ms=timeout_ms)
  if verdict != "sat":
    return verdict, None
  s = z3.Solver()
  s.set("timeout", timeout_ms)
  s.add(*base)
  s.add(z3.Or(*diffs))
  if s.check() != z3.sat:
    return "unknown", None
  m = s.model()
  w = {}
  for n in inputs:
    v = vars_.get(n.attr)
    if v is None:
      w[n.attr] = 0.0
      continue
    val = m.eval(v, model_completion=True)
    w[n.attr] = float(val.as_fraction()) if z3.is_rational_value(val) else float(val.approx(20).as_fraction())
  return "sat", w


def eager(fn, ts):
  import tensorflow as tf
  r = fn(*[tf.constant(t) for t in ts])
  if isinstance(r, (tuple, list)):
    return [np.asarray(x) for x in r]
  return [np.asarray(r)]


def differs(a, b):
  return any(not np.allclose(x, y, equal_nan=True, **TOL) for x, y in zip(a, b))


def sig_cfg(kind, kw):
  return dict(kind=kind, folding_mode=kw["folding_mode"], use_bias=kw["use_bias"], center=kw["center"], scale=kw["scale"])


def _rep(kind, kw, sample, kq, bq, act):
  return dict(kind=kind, kw=kw, sample=list(sample), kq=kq, bq=bq, act=act)


def probes_for(P, idx):
  rs = np.random.RandomState(idx)
  out = []
  for s in (0.5, 1.5):
    ts = []
    for n, sh in zip(P.names, P.shapes):
      t = (rs.randn(*sh) * s).astype(np.float32)
      if n == "mv":
        t = np.abs(t) + np.float32(0.05)
      ts.append(t)
    out.append(ts)
  return out


def one(run, idx, kind, kw, sample, kq, bq, act):
  tag = "%s(%s) kq=%s bq=%s act=%s" % (KINDS[kind]["cls"], ",".join("%s=%r" % kv for kv in sorted(kw.items())), kq, bq, act)
  rep = _rep(kind, kw, sample, kq, bq, act)
  try:
    P = Pair(kind, kw, sample, kq, bq, act)
  except Exception as e:  # pylint: disable=broad-except
    run.violation(dict(clause="construct", **sig_cfg(kind, kw)), dict(cfg=tag, error=repr(e)[:300]), dict(clause="construct", **rep))
    return
  meta = dict(cfg=tag)
  # ---- clause 1: call(x, training=False) == conv(x, q_k(folded kernel)) + q_b(folded bias) [+ activation] -------------
  try:
    b = ir.Builder()
    ta = P.trace(P.f_call, b)
    tb = P.trace(P.f_ref_quantized, b)
  except tfg.Unsupported as e:
    run.aux.setdefault("untranslated", []).append("%s: %s" % (tag, e))
    return
  except Exception as e:  # pylint: disable=broad-except
    # the layer body raised while being traced: replayed eagerly before it counts
    ok, detail = replay_concrete(dict(clause="call_raises", **rep))
    if ok:
      run.violation(dict(clause="call_raises", **sig_cfg(kind, kw)), dict(cfg=tag, **detail), dict(clause="call_raises", **rep))
    else:
      run.inconclusive_("%s: tracing failed (%r) but the eager call does not fail" % (tag, e))
    return
  run.configs.append(tag)
  run.aux["effects_ignored"] = sorted(set(run.aux.get("effects_ignored", [])) | set(x.split("/")[-1] for x in getattr(ta.it, "effects", [])))
  ob = solve.Obligation("%s_%04d_call" % (PROP, idx), "", meta=dict(meta, clause="folded_call"), solver="equiv")
  run.obls.append(ob)
  t0 = time.time()
  if equiv.structural(ta.out, tb.out):
    ob.result = solve.Result("unsat", {}, 0.0, "hash-consing")
    ob.smt = "(structural) output terms identical"
  else:
    found = None
    for ts in probes_for(P, idx):
      a, r = eager(P.f_call, ts), eager(P.f_ref_quantized, ts)
      run.concrete_checks += 1
      if differs(a, r):
        found = (ts, a, r)
        break
    if found is not None:
      ts, a, r = found
      ob.result = solve.Result("sat", {}, time.time() - t0, "probe+replay")
      ob.smt = "(concrete probe)"
      run.violation(dict(clause="folded_call", **sig_cfg(kind, kw)), dict(cfg=tag, layer_out=a[0].tolist(), reference_out=r[0].tolist()),
                    dict(clause="folded_call", inputs=[t.tolist() for t in ts], **rep))
    else:
      # not the identical computation: decide equality in exact arithmetic with the quantizers abstracted to uninterpreted
      # tensor functions (equal real arguments give equal results)
      ob.result = solve.Result("unknown", {}, time.time() - t0, "hash-consing")
      v, w = abstract_equal(run, idx, P, meta)
      if v == "sat":
        ts = P.tensors(w)
        a, r = eager(P.f_call, ts), eager(P.f_ref_quantized, ts)
        if differs(a, r):
          run.violation(dict(clause="folded_call", **sig_cfg(kind, kw)), dict(cfg=tag, layer_out=a[0].tolist(), reference_out=r[0].tolist()),
                        dict(clause="folded_call", inputs=[t.tolist() for t in ts], **rep))
        else:
          run.inconclusive_("%s: exact-arithmetic difference does not reproduce on the real layer" % tag)
      elif v != "unsat":
        run.inconclusive_("%s: folded_call undecided (%s)" % (tag, v))
      else:
        ob.result = solve.Result("unsat", {}, time.time() - t0, "z3-real+uf")
  # ---- clause 1b (unfolding): the plain layer that convert_folded_layer_to_unfolded builds, given kernel K' and bias B', computes
  #      conv(x, q_k(K')) + q_b(B') [+ activation] with the *folded layer's* quantizers - so that, loaded with the folded weights (as
  #      unfold_model's weight transfer does), it is the folded layer's inference function (clause 1)
  try:
    unfold_clause(run, idx, P, tag, rep, kind, kw)
  except Exception as e:  # pylint: disable=broad-except
    import traceback
    traceback.print_exc()
    run.inconclusive_("%s: unfolding clause failed: %r" % (tag, e))
  # ---- clause 2: get_folded_weights() equals the property's formulas, over the reals ----------------------------------
  b2 = ir.Builder()
  tf_ = P.trace(P.f_folded, b2)
  tr = P.trace(P.f_formula, b2)
  ins = tf_.input_nodes()
  pos = [n for n in ins if n.attr.startswith("mv")]
  outsA = np.concatenate([o.reshape(-1) for o in tf_.outputs])
  outsB = np.concatenate([o.reshape(-1) for o in tr.outputs])
  v, w = real_equal(run, "%04d_formula" % idx, outsA, outsB, ins, pos, dict(meta, clause="folded_formula"))
  if v == "sat":
    ts = P.tensors(w)
    a, r = eager(P.f_folded, ts), eager(P.f_formula, ts)
    if differs(a, r):
      run.violation(dict(clause="folded_formula", **sig_cfg(kind, kw)), dict(cfg=tag, folded=[x.tolist() for x in a], formula=[x.tolist() for x in r]),
                    dict(clause="folded_formula", inputs=[t.tolist() for t in ts], **rep))
    else:
      run.inconclusive_("%s: formula difference does not reproduce" % tag)
  elif v != "unsat":
    run.inconclusive_("%s: folded_formula undecided (%s)" % (tag, v))
  # ---- clause 3: without quantizers the layer equals convolution followed by batch normalisation, over the reals ---------
  if kq is None and bq is None and act is None:
    b3 = ir.Builder()
    t1 = P.trace(P.f_call, b3)
    t2 = P.trace(P.f_conv_bn, b3)
    ins = t1.input_nodes()
    pos = [n for n in ins if n.attr.startswith("mv")]
    v, w = real_equal(run, "%04d_convbn" % idx, t1.out, t2.out, ins, pos, dict(meta, clause="conv_bn"))
    if v == "sat":
      ts = P.tensors(w)
      a, r = eager(P.f_call, ts), eager(P.f_conv_bn, ts)
      if differs(a, r):
        run.violation(dict(clause="conv_bn", **sig_cfg(kind, kw)), dict(cfg=tag, layer_out=a[0].tolist(), conv_bn_out=r[0].tolist()),
                      dict(clause="conv_bn", inputs=[t.tolist() for t in ts], **rep))
      else:
        run.inconclusive_("%s: conv+BN difference does not reproduce" % tag)
    elif v != "unsat":
      run.inconclusive_("%s: conv_bn undecided (%s)" % (tag, v))


def unfold_clause(run, idx, P, tag, rep, kind, kw):
  import tensorflow as tf
  from qkeras import bn_folding_utils as BU
  with shim(kind):
    U = BU.convert_folded_layer_to_unfolded(P.layer)
  U.build((None,) + P.sample)
  attrs = layers.weight_attrs(U)
  shapes_u = layers.weight_shapes(U)
  kshape = P.shapes[1]
  C = P.channels
  if len(attrs) != 2 or shapes_u != [tuple(kshape), (C,)]:
    run.violation(dict(clause="unfold_layer", what="weights", **sig_cfg(kind, kw)), dict(cfg=tag, unfolded_weights=[list(s) for s in shapes_u], expected=[list(kshape), [C]]),
                  dict(clause="unfold_layer", **rep))
    return
  names = ["x", "K", "B"]
  shapes = [(1,) + P.sample, tuple(kshape), (C,)]
  f_u = layers.inject_call(U, attrs)

  def f_ref(x, K, B):
    L = P.layer
    kq = getattr(L, P.spec["kqi"])
    fk = kq(K) if P.has_kq else K
    fb = L.bias_quantizer_internal(B) if P.has_bq else B
    S = P.stock
    object.__setattr__(S, "_kernel" if hasattr(S, "_kernel") else "kernel", fk)
    object.__setattr__(S, "bias", fb)
    y = S.call(x)
    return L.activation(y) if P.has_act else y
  b = ir.Builder()
  ta = layers.MultiTraced(f_u, names, shapes, b)
  tb = layers.MultiTraced(f_ref, names, shapes, b)
  ob = solve.Obligation("%s_%04d_unfold" % (PROP, idx), "", meta=dict(cfg=tag, clause="unfold_layer"), solver="equiv")
  run.obls.append(ob)
  if equiv.structural(ta.out, tb.out):
    ob.result = solve.Result("unsat", {}, 0.0, "hash-consing")
    ob.smt = "(structural) output terms identical"
    return
  rs = np.random.RandomState(idx + 11)
  for s in (0.5, 1.5):
    ts = [(rs.randn(*sh) * s).astype(np.float32) for sh in shapes]
    a, r = eager(f_u, ts), eager(f_ref, ts)
    run.concrete_checks += 1
    if differs(a, r):
      ob.result = solve.Result("sat", {}, 0.0, "probe+replay")
      ob.smt = "(concrete probe)"
      run.violation(dict(clause="unfold_layer", what="function", **sig_cfg(kind, kw)), dict(cfg=tag, unfolded_out=a[0].tolist(), reference_out=r[0].tolist()),
                    dict(clause="unfold_layer", inputs=[t.tolist() for t in ts], **rep))
      return
  # not the identical computation and no probe separates them: exact-arithmetic equality with abstracted quantizers is not
  # available for the plain layer (its quantizers are applied inside its own call); undecided
  ob.result = solve.Result("unknown", {}, 0.0, "hash-consing")
  run.inconclusive_("%s: unfolded layer is not term-identical to the reference and no probe separates them" % tag)


E2E = [
    ("conv", dict(filters=2, kernel_size=2, use_bias=True, folding_mode="ema_stats_folding"), (4, 4, 1), "quantized_bits(4,0,1,alpha=1)", "quantized_bits(6,2,1,alpha=1)", None),
    ("conv", dict(filters=2, kernel_size=2, use_bias=False, folding_mode="batch_stats_folding", padding="same"), (3, 3, 2), "ternary(alpha=1)", None, "quantized_relu(4,1)"),
    ("conv", dict(filters=1, kernel_size=1, use_bias=True, folding_mode="ema_stats_folding", scale=False), (3, 3, 2), None, None, None),
    ("dw", dict(kernel_size=2, depth_multiplier=1, use_bias=True, folding_mode="ema_stats_folding"), (4, 4, 2), "quantized_bits(4,0,1,alpha=1)", "quantized_bits(6,2,1,alpha=1)", None),
    ("dw", dict(kernel_size=2, depth_multiplier=2, use_bias=False, folding_mode="batch_stats_folding", center=False), (3, 3, 1), "quantized_po2(4)", None, None),
]


def unfold_e2e(run):
  """auxiliary (concrete): the real unfold_model on one-layer models with random trained-like statistics: same predictions, and the
  plain layer's weights are exactly the folded weights"""
  import tensorflow as tf
  from .. import legacy_keras
  added = legacy_keras.install()
  run.aux["legacy_keras_stubs"] = added or run.aux.get("legacy_keras_stubs", [])
  keras = layers.K3()
  n = 0
  for ci, (kind, kw, sample, kq, bq, act) in enumerate(E2E):
    spec = KINDS[kind]
    qkw = dict(kw)
    if kq is not None:
      qkw[spec["kq"]] = kq
    if bq is not None:
      qkw["bias_quantizer"] = bq
    if act is not None:
      qkw["activation"] = act
    tag = "unfold_model %s(%s)" % (spec["cls"], ",".join("%s=%r" % kv for kv in sorted(qkw.items())))
    rep = dict(clause="unfold_model", index=ci)
    try:
      ok, detail = _unfold_once(ci)
    except Exception as e:  # pylint: disable=broad-except
      run.violation(dict(clause="unfold_model_raises", kind=kind), dict(cfg=tag, error=repr(e)[:300]), rep)
      continue
    run.concrete_checks += 1
    n += 1
    if ok:
      run.violation(dict(clause="unfold_model", kind=kind), dict(cfg=tag, **detail), rep)
    run.configs.append(tag)
  run.aux["unfold_model_runs"] = n


def _unfold_once(ci):
  import importlib
  import tensorflow as tf
  from .. import legacy_keras
  legacy_keras.install()
  keras = layers.K3()
  kind, kw, sample, kq, bq, act = E2E[ci]
  spec = KINDS[kind]
  qkw = dict(kw, name="folded")
  if kq is not None:
    qkw[spec["kq"]] = kq
  if bq is not None:
    qkw["bias_quantizer"] = bq
  if act is not None:
    qkw["activation"] = act
  rs = np.random.RandomState(100 + ci)
  with shim(kind):
    Q = importlib.import_module("qkeras")
    BU = importlib.import_module("qkeras.bn_folding_utils")
    i = keras.Input(sample, name="in")
    L = getattr(Q, spec["cls"])(**qkw)
    y = L(i)
    m = keras.Model(i, y)
    ch = int(y.shape[-1])
    bn = L.batchnorm
    bn.build(tuple(y.shape))
    bn.gamma = tf.Variable(rs.rand(ch).astype(np.float32) + 0.5) if bn.scale else None
    bn.beta = tf.Variable(rs.randn(ch).astype(np.float32)) if bn.center else None
    bn.moving_mean = tf.Variable(rs.randn(ch).astype(np.float32))
    bn.moving_variance = tf.Variable(rs.rand(ch).astype(np.float32) + 0.1)
    L.set_weights([(rs.randn(*w.shape) * 0.5).astype(np.float32) for w in L.get_weights()])
    u = BU.unfold_model(m)
    x = rs.randn(3, *sample).astype(np.float32)
    a = np.asarray(L.call(tf.constant(x), training=False))
    b = np.asarray(u(x))
    fw = [np.asarray(w) for w in L.get_folded_weights()]
    uw = u.layers[-1].get_weights()
  classes = [type(z).__name__ for z in u.layers]
  bad_w = len(uw) != 2 or not all(np.array_equal(p, q) for p, q in zip(fw, uw))
  bad = (not np.array_equal(a, b)) or bad_w or classes[-1] not in ("QConv2D", "QDepthwiseConv2D")
  return bad, dict(classes=classes, max_abs_diff=float(np.abs(a - b).max()) if a.shape == b.shape else None, weights_equal_folded=not bad_w)


def abstract_equal(run, idx, P, meta):
  """both sides re-traced with the quantizers / activation replaced by uninterpreted tensor functions"""
  import tensorflow as tf
  L = P.layer
  kqi = P.spec["kqi"]
  saved = (getattr(L, kqi), L.bias_quantizer_internal, L.activation)

  def marker(tag):
    return lambda x: tf.identity(x, name="VFUF_" + tag)
  try:
    if P.has_kq:
      object.__setattr__(L, kqi, marker("qk"))
    if P.has_bq:
      object.__setattr__(L, "bias_quantizer_internal", marker("qb"))
    if P.has_act:
      object.__setattr__(L, "activation", marker("act"))
    b = ir.Builder()
    ta = P.trace(P.f_call, b)
    tb = P.trace(P.f_ref_quantized, b)
  finally:
    object.__setattr__(L, kqi, saved[0])
    object.__setattr__(L, "bias_quantizer_internal", saved[1])
    object.__setattr__(L, "activation", saved[2])
  ins = ta.input_nodes()
  pos = [n for n in ins if n.attr.startswith("mv")]
  return real_equal(run, "%04d_call_abs" % idx, ta.out, tb.out, ins, pos, dict(meta, clause="folded_call", abstraction="quantizers as uninterpreted functions"))


def replay_concrete(rep):
  if rep["clause"] in ("unfold_model", "unfold_model_raises"):
    try:
      return _unfold_once(rep["index"])
    except Exception as e:  # pylint: disable=broad-except
      return True, dict(error=repr(e)[:300])
  kind, kw, sample = rep["kind"], rep["kw"], tuple(rep["sample"])
  if rep["clause"] == "construct":
    try:
      Pair(kind, kw, sample, rep["kq"], rep["bq"], rep["act"])
      return False, dict(note="constructs")
    except Exception as e:  # pylint: disable=broad-except
      return True, dict(error=repr(e)[:300])
  P = Pair(kind, kw, sample, rep["kq"], rep["bq"], rep["act"])
  if rep["clause"] == "call_raises":
    ts = probes_for(P, 1)[0]
    try:
      eager(P.f_call, ts)
      return False, dict(note="call succeeds")
    except Exception as e:  # pylint: disable=broad-except
      return True, dict(error=repr(e)[:300], inputs=[t.tolist() for t in ts])
  ts = [np.asarray(t, dtype=np.float32) for t in rep["inputs"]]
  if rep["clause"] == "unfold_layer":
    import tensorflow as tf
    from qkeras import bn_folding_utils as BU
    with shim(kind):
      U = BU.convert_folded_layer_to_unfolded(P.layer)
    U.build((None,) + P.sample)
    shapes_u = layers.weight_shapes(U)
    if "inputs" not in rep:
      return shapes_u != [tuple(P.shapes[1]), (P.channels,)], dict(unfolded_weights=[list(s) for s in shapes_u])
    ts = [np.asarray(t, dtype=np.float32) for t in rep["inputs"]]
    f_u = layers.inject_call(U, layers.weight_attrs(U))

    def f_ref(x, K, B):
      L = P.layer
      kq = getattr(L, P.spec["kqi"])
      fk = kq(K) if P.has_kq else K
      fb_ = L.bias_quantizer_internal(B) if P.has_bq else B
      S = P.stock
      object.__setattr__(S, "_kernel" if hasattr(S, "_kernel") else "kernel", fk)
      object.__setattr__(S, "bias", fb_)
      y = S.call(x)
      return L.activation(y) if P.has_act else y
    a, r = eager(f_u, ts), eager(f_ref, ts)
    return differs(a, r), dict(got=[x.tolist() for x in a], want=[x.tolist() for x in r])
  fa, fb = {"folded_call": (P.f_call, P.f_ref_quantized), "folded_formula": (P.f_folded, P.f_formula), "conv_bn": (P.f_call, P.f_conv_bn)}[rep["clause"]]
  a, r = eager(fa, ts), eager(fb, ts)
  return differs(a, r), dict(got=[x.tolist() for x in a], want=[x.tolist() for x in r])


def replay(body):
  ok, detail = replay_concrete(body["replay"])
  print("replay:", str(detail)[:800], "-> violation reproduced" if ok else "-> not reproduced")
  return ok


def run(tier, seed):
  r = harness.Run(PROP, "translation_validation", tier, seed)
  for idx, (kind, kw, sample, kq, bq, act) in enumerate(configs(tier, seed)):
    try:
      one(r, idx, kind, kw, sample, kq, bq, act)
    except Exception as e:  # pylint: disable=broad-except
      import traceback
      traceback.print_exc()
      r.inconclusive_("harness error on %s %s: %r" % (kind, kw, e))
  try:
    unfold_e2e(r)
  except Exception as e:  # pylint: disable=broad-except
    import traceback
    traceback.print_exc()
    r.inconclusive_("harness error in unfold_e2e: %r" % (e,))
  obls = [o for o in r.obls if not o.twin]
  r.aux.update(programs=len(r.configs), equivalences_structural=sum(1 for o in obls if o.result is not None and o.result.solver == "hash-consing"
                                                                    and o.result.verdict == "unsat"))
  r.functions = ["QConv2DBatchnorm.__init__/build/call/get_folded_weights", "QDepthwiseConv2DBatchnorm.__init__/build/call/get_folded_weights",
                 "bn_folding_utils.convert_folded_layer_to_unfolded", "bn_folding_utils.unfold_model (auxiliary, concrete)"]
  r.bounds = ["%d (layer type, geometry, folding mode, use_bias/center/scale, quantizer assignment) instances; one input sample of 9..18 elements; "
              "kernel, bias, gamma, beta, moving mean and moving variance all symbolic" % len(r.configs),
              "inference mode only (training=False); ema_freeze_delay None or a positive integer with the iteration counter at its initial value",
              "clause folded_call is exact (identical floating-point terms) when decided by term identity, otherwise exact-arithmetic with the "
              "quantizers abstracted; clauses folded_formula and conv_bn are equalities over the REALS (rounding is outside the claim): "
              "sqrt/rsqrt are characterised by s*s = a, r*r*a = 1; moving_variance >= 0",
              "unfolding: per configuration the plain layer built by convert_folded_layer_to_unfolded, with symbolic kernel K' and bias B', is proved "
              "(term identity) to compute conv(x, q_k(K')) + q_b(B') [+ activation] with the folded layer's quantizers and geometry; the real "
              "unfold_model is additionally run on %d one-layer models with random statistics (auxiliary, concrete: same predictions, plain "
              "weights = folded weights; legacy Keras attributes stubbed)" % len(E2E),
              "NOT covered: convert_to_folded_model / model_quantize(enable_bn_folding) (conv+BN -> folded conversion), training-mode behaviour, "
              "multi-layer and branched models for unfold_model"]
  r.assumptions = ["environment stub: tensorflow.keras.layers.BatchNormalization is replaced, inside the two folded-layer modules only and only while "
                   "the check runs, by BNShim (the legacy-Keras attribute surface the layers use; contract in vf/props/c15.py); under the pinned "
                   "Keras 3 the real class rejects the legacy arguments and the layers cannot be constructed at all",
                   "the iteration-counter update (assign_add) has no data output and is not modelled",
                   "TF linear kernels are bilinear with 0/1 structure (extracted from and checked against the real kernels)"]
  return r.finish("The real QConv2DBatchnorm / QDepthwiseConv2DBatchnorm objects are built through their own constructors (with the legacy "
                  "BatchNormalization surface stubbed), their call(training=False) and get_folded_weights() are traced with every tensor symbolic, "
                  "and compared in one hash-consed term store with (1) the stock Keras-3 convolution applied to q_k(folded kernel), q_b(folded "
                  "bias), (2) the property's closed formulas and (3) stock convolution followed by stock BatchNormalization; (2) and (3) are "
                  "decided by z3 over the reals, counterexamples are replayed on the real layers.")
