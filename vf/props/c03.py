"""C03 - power-of-two quantizers emit signed powers of two with in-range exponents."""
import itertools
import math
import random
import numpy as np

from .. import harness, ir, qz, tfg

PROP = "C03"
EPS = np.float32(1e-7)      # tf.keras.backend.epsilon()


def po2_format(cls, kw):
  """declared exponent interval (harness-side)"""
  bits = kw.get("bits", 8)
  mv = kw.get("max_value")
  need_sign = 1 if (mv is None or mv > 1) else 0
  eb = (bits - 1 - need_sign) if cls == "quantized_po2" else (bits - need_sign)
  if eb < 0:
    return None
  mn, mx = -(2 ** eb), 2 ** eb - 1
  if kw.get("quadratic_approximation"):
    mx = 2 * (mx // 2)
  kmax = mx
  if mv is not None:
    if math.log2(mv) != int(math.log2(mv)):
      return None
    kmax = min(mx, int(math.log2(mv)))
  if kmax < mn:
    return None
  return dict(min_exp=mn, max_exp=mx, kmax=kmax, relu=(cls == "quantized_relu_po2"), slope=kw.get("negative_slope", 0) or 0,
              floor=kw.get("log2_rounding", "rnd") == "floor", quad=bool(kw.get("quadratic_approximation")), mv=mv)


def lattice(tier, seed):
  full = []
  for bits, mv, rnd, ste in itertools.product(range(2, 9), (None, 0.25, 1.0, 2.0, 4.0, 16.0), ("rnd", "floor"), (True, False)):
    kw = dict(bits=bits)
    if mv is not None:
      kw["max_value"] = mv
    if rnd != "rnd":
      kw["log2_rounding"] = rnd
    if not ste:
      if bits not in (4, 8):
        continue
      kw["use_ste"] = False
    full.append(("quantized_po2", dict(kw)))
    for slope in (0, 0.5, 0.125):
      k2 = dict(kw)
      if slope:
        k2["negative_slope"] = slope
      full.append(("quantized_relu_po2", k2))
  full = [c for c in full if po2_format(*c) is not None]
  core = [
      ("quantized_po2", dict(bits=4)),
      ("quantized_po2", dict(bits=8)),
      ("quantized_po2", dict(bits=8, max_value=4.0)),
      ("quantized_po2", dict(bits=3, max_value=1.0)),
      ("quantized_po2", dict(bits=4, max_value=0.25)),
      ("quantized_po2", dict(bits=5, log2_rounding="floor")),
      ("quantized_po2", dict(bits=4, use_ste=False)),
      ("quantized_po2", dict(bits=2)),
      ("quantized_relu_po2", dict(bits=4)),
      ("quantized_relu_po2", dict(bits=8)),
      ("quantized_relu_po2", dict(bits=4, negative_slope=0.25)),
      ("quantized_relu_po2", dict(bits=6, negative_slope=0.125, max_value=4.0)),
      ("quantized_relu_po2", dict(bits=3, max_value=2.0, log2_rounding="floor")),
      ("quantized_relu_po2", dict(bits=4, max_value=1.0)),
      ("quantized_relu_po2", dict(bits=5, use_ste=False)),
  ]
  rr = random.Random(seed)
  rest = [c for c in full if c not in core]
  rr.shuffle(rest)
  # thorough: the core plus a seed-rotated sample of the 432-configuration lattice sized for about an hour on 16 cores
  # (the whole lattice takes about three hours; VERIF_C03_FULL=1 runs all of it)
  import os
  if tier == "thorough":
    return core + (rest if os.environ.get("VERIF_C03_FULL") else rest[:110])
  return core + rest[:6]


# -- SMT oracle --------------------------------------------------------------
def bv8(v):
  return "#x%02x" % (v & 0xFF)


def oracle(fmt, x_name="x"):
  """Returns SMT text GOOD(ob, xb) over the bit patterns of output and input.
  ob / xb : 32-bit patterns.  Expected exponent is computed in 10-bit signed arithmetic from xb's fields."""
  mn, kmax = fmt["min_exp"], fmt["kmax"]
  xb, ob = x_name + "_b", "ob"
  s10 = lambda v: "(_ bv%d 10)" % (v % 1024)
  ex = "((_ zero_extend 2) ((_ extract 30 23) %s))" % xb          # biased, 10 bit
  man = "((_ extract 22 0) %s)" % xb
  oe = "((_ zero_extend 2) ((_ extract 30 23) %s))" % ob
  om = "((_ extract 22 0) %s)" % ob
  osgn = "((_ extract 31 31) %s)" % ob
  xsgn = "((_ extract 31 31) %s)" % xb
  xzero = "(= ((_ extract 30 0) %s) (_ bv0 31))" % xb
  clampf = lambda e: "(ite (bvslt %s %s) %s (ite (bvsgt %s %s) %s %s))" % (e, s10(127 + mn), s10(127 + mn), e, s10(127 + kmax), s10(127 + kmax), e)

  def expected(shift):
    """conditions on oe for a log input |x|*2^shift (shift = log2(slope) for the leaky side)"""
    e0 = "(bvadd %s %s)" % (ex, s10(shift))
    if fmt["quad"]:
      return None
    if fmt["floor"]:
      lo_amb = "(bvult %s #b%s)" % (man, format(ir.LOG_WIN + 1, "023b"))                      # just above 2^k: k-1 or k
      hi_amb = "(bvugt %s #b%s)" % (man, format((1 << 23) - 2 * ir.LOG_WIN - 1, "023b"))      # just below 2^(k+1): k or k+1
      e_lo = "(bvsub %s %s)" % (e0, s10(1))
      e_hi = "(bvadd %s %s)" % (e0, s10(1))
      return ("(ite %s (or (= %s %s) (= %s %s)) (ite %s (or (= %s %s) (= %s %s)) (= %s %s)))" % (
          lo_amb, oe, clampf(e_lo), oe, clampf(e0), hi_amb, oe, clampf(e0), oe, clampf(e_hi), oe, clampf(e0)))
    below = "(bvult %s #b%s)" % (man, format(ir.SQRT2_MAN - ir.LOG_WIN, "023b"))
    above = "(bvugt %s #b%s)" % (man, format(ir.SQRT2_MAN + ir.LOG_WIN, "023b"))
    e1 = "(bvadd %s %s)" % (e0, s10(1))
    return "(ite %s (= %s %s) (ite %s (= %s %s) (or (= %s %s) (= %s %s))))" % (
        below, oe, clampf(e0), above, oe, clampf(e1), oe, clampf(e0), oe, clampf(e1))

  def capped(kv):
    """input replaced by max_value = 2^kv: in floor mode the real log kernel decides between kv-1 and kv"""
    if fmt["floor"]:
      return "(or (= %s %s) (= %s %s))" % (oe, clampf(s10(127 + kv)), oe, clampf(s10(127 + kv - 1)))
    return "(= %s %s)" % (oe, clampf(s10(127 + kv)))

  shape = "(and (= %s (_ bv0 23)) (bvsge %s %s) (bvsle %s %s))" % (om, oe, s10(max(1, 127 + mn)), oe, s10(127 + kmax))
  L = ir.fp_lit
  xa = "(fp.abs %s)" % x_name
  parts = [shape]
  is_min = "(= %s %s)" % (oe, s10(127 + mn))
  tiny = "(fp.lt %s %s)" % (xa, L(EPS))
  if not fmt["relu"]:
    # sign follows the input, zero counts as positive
    parts.append("(= %s (ite %s #b0 %s))" % (osgn, xzero, xsgn))
    parts.append("(=> %s %s)" % (tiny, is_min))
    exp = expected(0)
    if exp is not None:
      cap = ""
      if fmt["mv"] is not None:
        # inputs at or above max_value are replaced by max_value (a power of two)
        kv = int(math.log2(fmt["mv"]))
        cap = "(ite (fp.geq %s %s) %s " % (xa, L(fmt["mv"]), capped(kv))
      parts.append("(=> (not %s) %s%s%s)" % (tiny, cap, exp, ")" if cap else ""))
  else:
    neg = "(and (= %s #b1) (not %s))" % (xsgn, xzero)
    slope = fmt["slope"]
    if not slope:
      parts.append("(= %s #b0)" % osgn)
      parts.append("(=> (or %s %s) %s)" % (neg, tiny, is_min))
      pos_cond = "(and (not %s) (not %s))" % (neg, tiny)
    else:
      sh = int(math.log2(slope))
      parts.append("(= %s (ite %s #b1 #b0))" % (osgn, neg))
      # negative side: log input is |x|*slope; below eps -> min code
      tiny_n = "(fp.lt (fp.mul RNE %s %s) %s)" % (xa, L(slope), L(EPS))
      parts.append("(=> (and %s %s) %s)" % (neg, tiny_n, is_min))
      parts.append("(=> (and (not %s) %s) %s)" % (neg, tiny, is_min))
      expn = expected(sh)
      if expn is not None:
        capn = ""
        if fmt["mv"] is not None:
          kv = int(math.log2(fmt["mv"]))
          capn = "(ite (fp.geq (fp.mul RNE %s %s) %s) %s " % (xa, L(slope), L(fmt["mv"]), capped(kv))
        parts.append("(=> (and %s (not %s)) %s%s%s)" % (neg, tiny_n, capn, expn, ")" if capn else ""))
      pos_cond = "(and (not %s) (not %s))" % (neg, tiny)
    exp = expected(0)
    if exp is not None:
      cap = ""
      if fmt["mv"] is not None:
        kv = int(math.log2(fmt["mv"]))
        cap = "(ite (fp.geq %s %s) %s " % (xa, L(fmt["mv"]), capped(kv))
      parts.append("(=> %s %s%s%s)" % (pos_cond, cap, exp, ")" if cap else ""))
  return "(and %s)" % " ".join(parts)


def window_smt(fmt):
  """inputs whose log2 sits inside a tie window of the Log contract (the real kernel decides there): predicate on x_b's mantissa"""
  man = "((_ extract 22 0) x_b)"
  if fmt["floor"]:
    return "(or (bvult %s #b%s) (bvugt %s #b%s))" % (man, format(ir.LOG_WIN + 1, "023b"), man, format((1 << 23) - 2 * ir.LOG_WIN - 1, "023b"))
  return "(and (bvuge %s #b%s) (bvule %s #b%s))" % (man, format(ir.SQRT2_MAN - ir.LOG_WIN, "023b"), man, format(ir.SQRT2_MAN + ir.LOG_WIN, "023b"))


def in_band_smt(fmt, band_lo):
  """SMT text over {0}=x: the (surrogate of the) input lies in [2^(24+min_exp), eps)"""
  L = ir.fp_lit
  pos = "(and (fp.geq (fp.abs {0}) %s) (fp.lt (fp.abs {0}) %s))" % (L(band_lo), L(EPS))
  if not fmt["relu"]:
    return pos
  if not fmt["slope"]:
    return "(and (fp.isPositive {0}) %s)" % pos
  sx = "(fp.mul RNE (fp.abs {0}) %s)" % L(fmt["slope"])
  neg = "(and (fp.geq %s %s) (fp.lt %s %s))" % (sx, L(band_lo), sx, L(EPS))
  return "(ite (fp.isNegative {0}) %s %s)" % (neg, pos)


def region_of(x, fmt):
  """python mirror of the region split"""
  x = np.float32(x)
  a = abs(float(x))
  if fmt["relu"] and x < 0:
    if not fmt["slope"]:
      return "main"
    a = a * fmt["slope"]
  if abs(float(x)) >= 2.0 ** min(127, 24 + fmt["kmax"]):
    return "huge"
  if fmt["floor"] and fmt["mv"] is not None and abs(float(x)) >= 2.0 ** min(127, 24 + fmt["kmax"]) / 2.0:
    return "cap_binade"        # outside the claim for floor mode with max_value (see one_config)
  band_lo = 2.0 ** (24 + fmt["min_exp"]) if 24 + fmt["min_exp"] > -126 else 0.0
  if 0 < band_lo <= a < float(EPS):
    return "below_eps_band"
  return "main"


def exact_check(x, out, fmt):
  """independent python oracle on concrete values (used for replay and enumerated sub-checks)"""
  x, out = np.float32(x), np.float32(out)
  ob = ir.f32_bits(out)
  E, M, S = (ob >> 23) & 0xFF, ob & 0x7FFFFF, ob >> 31
  if M != 0 or not (127 + fmt["min_exp"] <= E <= 127 + fmt["kmax"]):
    return "output %r is not 2^e with e in [%d,%d]" % (float(out), fmt["min_exp"], fmt["kmax"])
  neg_in = bool(x < 0)
  if not fmt["relu"]:
    if S != (1 if neg_in else 0):
      return "sign of %r does not follow input %r" % (float(out), float(x))
  else:
    if fmt["slope"]:
      if S != (1 if neg_in else 0):
        return "sign of %r does not follow input %r" % (float(out), float(x))
    elif S != 0 or (neg_in and E != 127 + fmt["min_exp"]):
      return "negative input %r not mapped to the smallest code (got %r)" % (float(x), float(out))
  a = abs(float(x)) * (fmt["slope"] if (fmt["relu"] and neg_in and fmt["slope"]) else 1.0)
  if fmt["relu"] and neg_in and not fmt["slope"]:
    return None
  if a < float(EPS):
    return None if E == 127 + fmt["min_exp"] else "input below epsilon not mapped to the smallest magnitude"
  if fmt["quad"]:
    return None
  if fmt["mv"] is not None and a >= fmt["mv"]:
    a = fmt["mv"]
  lg = math.log2(a)
  cl = lambda e: max(fmt["min_exp"], min(fmt["kmax"], e))
  w = 2.0 ** -12
  if fmt["floor"]:
    ok = {cl(math.floor(lg - w)), cl(math.floor(lg + w)), cl(math.floor(lg))}
  else:
    ok = {cl(math.floor(lg + 0.5 - w)), cl(math.floor(lg + 0.5 + w))}
  if E - 127 not in ok:
    return "exponent %d of output is not the %s admissible exponent for |x|=%r (expected %s)" % (E - 127, "floor" if fmt["floor"] else "nearest", a, sorted(ok))
  return None


def call(q, v):
  import tensorflow as tf
  return np.float32(np.asarray(q(tf.constant(np.float32(v), tf.float32))).reshape(-1)[0])


def sig_of(cls, kw, clause, region):
  fmt = po2_format(cls, kw)
  s = dict(cls=cls, clause=clause, region=region)
  if fmt and fmt["min_exp"] < -126:
    s["min_code_subnormal"] = True
  return s


def one_config(run, cls, kw, rng, idx):
  import tensorflow as tf
  fmt = po2_format(cls, kw)
  cfg = qz.cfg_str(cls, kw)
  q = qz.make(cls, kw)
  if (q._min_exp, q._max_exp) != (fmt["min_exp"], fmt["max_exp"]):
    # the exponent interval the object declares differs from the one the configuration calls for
    run.violation(sig_of(cls, kw, "exponent_interval", "config"), dict(cfg=cfg, declared=[q._min_exp, q._max_exp], expected=[fmt["min_exp"], fmt["max_exp"]]),
                  dict(cls=cls, kw=kw, clause="exponent_interval"))
  tr = qz.Traced(q, ())
  b = tr.b
  x, o = tr.xs()[0], tr.outs()[0]
  br = [2.0 ** k * math.sqrt(2) for k in range(fmt["min_exp"] - 2, fmt["kmax"] + 3)] + [2.0 ** k for k in range(max(-126, fmt["min_exp"] - 2), min(127, fmt["kmax"] + 3))]
  br += [float(EPS), fmt["mv"] or 1.0]
  br += [-v for v in br]
  pts = qz.interesting_points(br, rng, n_random=16 if run.quick() else 48, scale=2.0 ** fmt["kmax"])
  bad = qz.validate_scalar(tr, q, pts)
  run.validated_points += len(pts)
  run.validated_graphs += 1
  if bad:
    run.inconclusive_("translator mismatch for %s: %s" % (cfg, bad[:3]))
    return
  run.configs.append(cfg)
  b.close_stubs()
  meta = dict(cls=cls, kw=kw, min_exp=fmt["min_exp"], kmax=fmt["kmax"])
  decl = ["(declare-const ob (_ BitVec 32))"]
  tie = [ir.L("(= ((_ to_fp 8 24) ob) {0})", o), ir.L("(not (fp.isNaN {0}))", o)]
  good = oracle(fmt)
  # Regions.  The straight-through residual x_u + (-x_u + xq) is exact (so that the output *is* xq) iff xq is a multiple of
  # ulp(x_u) or Sterbenz applies:  region main = |x| < 2^(24+kmax) minus the band [2^(24+min_exp), eps) in which the
  # input is replaced by the smallest code although ulp(x) > 2^min_exp.  The band and the huge region are queried
  # separately; failures there are recorded findings and hide nothing in region main.
  big = 2.0 ** min(127, 24 + fmt["kmax"])
  if fmt["floor"] and fmt["mv"] is not None:
    # an input replaced by max_value = 2^kv sits on the floor breakpoint of the Log contract: the lower neighbour 2^(kv-1) is
    # admissible for the model, and the straight-through residual is exact for it only one binade lower.  The binade
    # [2^(23+kmax), 2^(24+kmax)) is outside the claim for these configurations.
    big_main = big / 2.0
  else:
    big_main = big
  band_lo = 2.0 ** (24 + fmt["min_exp"]) if 24 + fmt["min_exp"] > -126 else 0.0
  has_band = band_lo < float(EPS) and band_lo > 0
  in_band = in_band_smt(fmt, band_lo) if has_band else None
  dom_main = [qz.finite_normal(x), qz.abs_lt(x, big_main)] + ([ir.L("(not %s)" % in_band, x)] if has_band else [])
  flush_min = fmt["min_exp"] < -126
  if flush_min:
    # 2^min_exp is subnormal and flushed by the kernels: the min-code region is a separate obligation
    notmin = ir.L("(not (or (fp.lt (fp.abs {0}) %s) (fp.isNegative {0})))" % ir.fp_lit(2.0 ** -100), x)
    run.add("%03d_shape" % idx, ir.build_smt(b, dom_main + [notmin] + tie[:1] + ["(not %s)" % good], extra_decls=decl, get_values=["x_b", "ob"]),
            meta=dict(meta, clause="shape", region="main_above_min"))
    run.add("%03d_shape_min" % idx, ir.build_smt(b, [qz.finite_normal(x), ir.L("(or (fp.lt (fp.abs {0}) %s) (fp.isNegative {0}))" % ir.fp_lit(2.0 ** -100), x)] + tie[:1] + ["(not %s)" % good],
                                                 extra_decls=decl, get_values=["x_b", "ob"]),
            meta=dict(meta, clause="shape", region="min_code"), timeout=300)
  else:
    run.add("%03d_shape" % idx, ir.build_smt(b, dom_main + tie[:1] + ["(not %s)" % good], extra_decls=decl, get_values=["x_b", "ob"]),
            meta=dict(meta, clause="shape", region="main"))
  run.add_twin("%03d_shape" % idx, ir.build_smt(b, dom_main + tie, extra_decls=decl, get_values=["x_b", "ob"]), meta=meta)
  if has_band and not flush_min:
    run.add("%03d_shape_band" % idx, ir.build_smt(b, [qz.finite_normal(x), ir.L(in_band, x)] + tie[:1] + ["(not %s)" % good], extra_decls=decl, get_values=["x_b", "ob"]),
            meta=dict(meta, clause="shape", region="below_eps_band"), timeout=300)
  if 24 + fmt["kmax"] < 127 and not (fmt["relu"] and fmt["mv"] is not None and not fmt["slope"]):
    dom_huge = [qz.finite_normal(x), ir.L("(fp.geq (fp.abs {0}) %s)" % ir.fp_lit(big), x)]
    if fmt["relu"] and not fmt["slope"]:
      dom_huge.append(ir.L("(fp.isPositive {0})", x))
    run.add("%03d_shape_huge" % idx, ir.build_smt(b, dom_huge + tie[:1] + ["(not %s)" % good], extra_decls=decl, get_values=["x_b", "ob"]),
            meta=dict(meta, clause="shape", region="huge"), timeout=300)
  # idempotence (no leaky slope): every admissible power of two is a fixed point.
  if not fmt["slope"]:
    es = list(range(fmt["min_exp"], fmt["kmax"] + 1))
    if fmt["quad"]:
      es = [e for e in es if e % 2 == 0]
    vals = [2.0 ** e for e in es if e >= -126]
    if not fmt["relu"]:
      vals = vals + [-v for v in vals]
    if fmt["floor"]:
      # floor mode: powers of two sit on the floor breakpoint of the real log kernel -> exhaustive concrete sub-check
      arr = np.asarray(vals, dtype=np.float32)
      outv = np.asarray(q(tf.constant(arr))).reshape(-1)
      run.concrete_checks += len(vals)
      run.aux["floor_idempotence_points"] = run.aux.get("floor_idempotence_points", 0) + len(vals)
      badv = [(float(a), float(c)) for a, c in zip(arr, outv) if a != c]
      if badv:
        run.violation(sig_of(cls, kw, "idempotent", "floor_powers_of_two"), dict(cfg=cfg, examples=badv[:6], count=len(badv)),
                      dict(cls=cls, kw=kw, clause="idempotent", x=badv[0][0]))
    else:
      pre = "(and (= ((_ extract 22 0) x_b) (_ bv0 23)) (bvuge ((_ extract 30 23) x_b) %s) (bvule ((_ extract 30 23) x_b) %s)%s)" % (
          bv8(127 + max(fmt["min_exp"], -126)), bv8(127 + fmt["kmax"]), " (= ((_ extract 31 31) x_b) #b0)" if fmt["relu"] else "")
      if fmt["quad"]:
        pre = "(and %s (= ((_ extract 23 23) x_b) #b1))" % pre     # even exponent <=> odd biased exponent
      run.add("%03d_idem" % idx, ir.build_smt(b, [pre, ir.L("(not (fp.eq {0} {1}))", o, x)]), meta=dict(meta, clause="idempotent", region="codes"))
      run.add_twin("%03d_idem" % idx, ir.build_smt(b, [pre, ir.L("(= {0} {0})", o)]), meta=meta)
  # min()/max() enclose: constant comparison on top of the shape clause
  qmin, qmax = float(np.asarray(q.min())), float(np.asarray(q.max()))
  top = 2.0 ** fmt["kmax"]
  lo = -top if (not fmt["relu"]) else (-top if fmt["slope"] else (0.0 if flush_min else 2.0 ** fmt["min_exp"]))
  if fmt["relu"] and fmt["slope"]:
    # negative side: exponent of slope*|x| capped by kmax
    lo = -top
  run.concrete_checks += 1
  if not (qmin <= lo and top <= qmax):
    # (inside the tie windows the real kernel decides: those inputs are enumerated on the real code by window_monotone)
    run.add("%03d_minmax" % idx, ir.build_smt(b, dom_main + ["(not %s)" % window_smt(fmt), ir.L("(not (and (fp.leq %s {0}) (fp.leq {0} %s)))" % (ir.fp_lit(qmin), ir.fp_lit(qmax)), o)]),
            meta=dict(meta, clause="minmax", region="main", qmin=qmin, qmax=qmax))
  # monotone on each sign: follows from the exponent clause outside the tie windows; inside them the real log kernel decides ->
  # exhaustive concrete enumeration of every float32 in every window (plus one neighbour each side)
  if not fmt["quad"]:
    n = window_monotone(run, q, fmt, cls, kw, cfg)
    run.aux["window_points_enumerated"] = run.aux.get("window_points_enumerated", 0) + n


def window_monotone(run, q, fmt, cls, kw, cfg):
  import tensorflow as tf
  lo_e = max(1, 127 + fmt["min_exp"] - 4 - (int(-math.log2(fmt["slope"])) if fmt["slope"] else 0))
  hi_e = min(254, 127 + fmt["kmax"] + 3 + (int(-math.log2(fmt["slope"])) if fmt["slope"] else 0))
  if fmt["floor"]:
    ms = np.concatenate([np.arange(0, ir.LOG_WIN + 2), np.arange((1 << 23) - 2 * ir.LOG_WIN - 2, 1 << 23)]).astype(np.uint32)
  else:
    ms = np.arange(ir.SQRT2_MAN - ir.LOG_WIN - 1, ir.SQRT2_MAN + ir.LOG_WIN + 2).astype(np.uint32)
  total = 0
  signs = (0, 1) if (not fmt["relu"] or fmt["slope"]) else (0,)
  for sgn in signs:
    chunks = []
    for E in range(lo_e, hi_e + 1):
      chunks.append(((np.uint32(sgn) << 31) | (np.uint32(E) << 23) | ms).astype(np.uint32))
    arr = np.concatenate(chunks).view(np.float32)
    arr = arr[np.array([region_of(v, fmt) == "main" for v in arr])] if len(arr) else arr
    if fmt["min_exp"] < -126:
      arr = arr[np.abs(arr) >= 2.0 ** -100]
    if len(arr) < 2:
      continue
    out = np.asarray(q(tf.constant(arr))).reshape(-1)
    total += len(arr)
    # arr is ascending in magnitude; each sign: output must be monotone non-decreasing in x
    d = np.diff(out) if sgn == 0 else -np.diff(out)
    # only compare neighbours inside the same contiguous chunk or across chunks (both ascending in |x|)
    if np.any(d < 0):
      i = int(np.where(d < 0)[0][0])
      run.violation(sig_of(cls, kw, "monotone", "tie_window"), dict(cfg=cfg, x1=float(arr[i]), x2=float(arr[i + 1]), out1=float(out[i]), out2=float(out[i + 1])),
                    dict(cls=cls, kw=kw, clause="monotone", x1=float(arr[i]), x2=float(arr[i + 1])))
    # min()/max() enclose every window point
    qmin, qmax = float(np.asarray(q.min())), float(np.asarray(q.max()))
    outside = np.where((out < qmin) | (out > qmax))[0]
    if len(outside):
      i = int(outside[0])
      run.violation(sig_of(cls, kw, "minmax", "main"), dict(cfg=cfg, x=float(arr[i]), out=float(out[i]), qmin=qmin, qmax=qmax),
                    dict(cls=cls, kw=kw, clause="minmax", x_bits=int(ir.f32_bits(arr[i]))))
    # and every window point still satisfies the exact python oracle (both neighbours admissible)
    for j in range(0, len(arr), max(1, len(arr) // 400)):
      why = exact_check(arr[j], out[j], fmt)
      if why:
        run.violation(sig_of(cls, kw, "shape", "tie_window"), dict(cfg=cfg, x=float(arr[j]), out=float(out[j]), why=why),
                      dict(cls=cls, kw=kw, clause="shape", x_bits=int(ir.f32_bits(arr[j]))))
        break
  run.concrete_checks += total
  return total


def replay_concrete(rep):
  cls, kw, clause = rep["cls"], rep["kw"], rep["clause"]
  fmt = po2_format(cls, kw)
  q = qz.make(cls, kw)
  if clause == "exponent_interval":
    return (q._min_exp, q._max_exp) != (fmt["min_exp"], fmt["max_exp"]), dict(declared=[q._min_exp, q._max_exp])
  if clause == "monotone":
    o1, o2 = call(q, rep["x1"]), call(q, rep["x2"])
    return bool((rep["x1"] <= rep["x2"]) and o1 > o2), dict(out1=float(o1), out2=float(o2))
  x = ir.bits_f32(rep["x_bits"]) if "x_bits" in rep else np.float32(rep["x"])
  out = call(q, x)
  detail = dict(x=float(x), out=float(out), cfg=qz.cfg_str(cls, kw), clause=clause)
  if clause == "shape":
    why = exact_check(x, out, fmt)
    detail["why"] = why
    return why is not None, detail
  if clause == "idempotent":
    return bool(out != x), detail
  if clause == "minmax":
    qmin, qmax = float(np.asarray(q.min())), float(np.asarray(q.max()))
    detail.update(qmin=qmin, qmax=qmax)
    return not (qmin <= float(out) <= qmax), detail
  return False, detail


def replay(body):
  ok, detail = replay_concrete(body["replay"])
  print("replay:", detail, "-> violation reproduced" if ok else "-> not reproduced")
  return ok


def triage(run):
  for o in run.obls:
    r = o.result
    if r is None:
      continue
    if o.twin:
      if r.verdict != "sat":
        run.inconclusive_("reachability twin %s is %s" % (o.oid, r.verdict))
      continue
    if r.verdict == "unsat":
      continue
    region = o.meta.get("region", "main")
    if r.verdict == "sat":
      rep = dict(cls=o.meta["cls"], kw=o.meta["kw"], clause=o.meta["clause"], x_bits=r.model.get("x_b"))
      ok, detail = replay_concrete(rep)
      if ok:
        if o.meta["clause"] == "idempotent" and abs(detail["x"]) < float(EPS):
          region = "codes_below_eps"
        run.violation(sig_of(o.meta["cls"], o.meta["kw"], o.meta["clause"], region), detail, rep)
      else:
        # the model may sit inside a tie window of the Log contract (where either neighbour is admissible for the model but the
        # real kernel decides): ask once more for a counterexample outside every window before giving up
        retry = None
        if "(check-sat)" in (o.smt or ""):
          man = "((_ extract 22 0) x_b)"
          win = ("(or (bvult %s #b%s) (bvugt %s #b%s) (and (bvuge %s #b%s) (bvule %s #b%s)))"
                 % (man, format(4 * ir.LOG_WIN, "023b"), man, format((1 << 23) - 4 * ir.LOG_WIN, "023b"),
                    man, format(ir.SQRT2_MAN - 4 * ir.LOG_WIN, "023b"), man, format(ir.SQRT2_MAN + 4 * ir.LOG_WIN, "023b")))
          smt2 = o.smt.replace("(check-sat)", "(assert (not %s))\n(check-sat)" % win, 1)
          r2 = harness.solve.run_smt(smt2, o.solver, o.timeout, o.oid + "_retry")
          run.aux["window_retries"] = run.aux.get("window_retries", 0) + 1
          if r2.verdict == "sat":
            rep2 = dict(rep, x_bits=r2.model.get("x_b"))
            ok2, detail2 = replay_concrete(rep2)
            if ok2:
              retry = (rep2, detail2)
        if retry is not None:
          run.violation(sig_of(o.meta["cls"], o.meta["kw"], o.meta["clause"], region), retry[1], retry[0])
        else:
          run.inconclusive_("counterexample of %s does not reproduce on the real code: %s" % (o.oid, detail))
    elif region == "huge":
      # informational region: a timeout here is not a verdict about the claimed domain
      run.aux["huge_region_undecided"] = run.aux.get("huge_region_undecided", 0) + 1
    else:
      run.inconclusive_("%s: solver answered %s %s" % (o.oid, r.verdict, r.raw[-300:]))


def run(tier, seed):
  r = harness.Run(PROP, "model_checking", tier, seed)
  rng = np.random.RandomState(seed)
  # contract validation against the real kernels (every run; dense in the thorough tier)
  nbad, npts = qz.validate_log_contract(20000 if tier == "quick" else 2000000, rng, dense_windows=(tier != "quick"))
  pbad, ppts = qz.validate_pow2_contract()
  r.aux["log_contract_points"] = npts
  r.aux["pow2_contract_points"] = ppts
  r.concrete_checks += npts + ppts
  if nbad or pbad:
    r.inconclusive_("Log/Pow contract violated by the real kernel at %d/%d points" % (nbad, pbad))
  cfgs = lattice(tier, seed)
  r.functions = ["qkeras.quantizers.quantized_po2.__call__/min/max", "quantized_relu_po2.__call__/min/max", "_clip_power_of_two",
                 "_get_min_max_exponents", "_need_exponent_sign_bit_check"]
  r.bounds = ["%d configurations (bits 2..8, max_value in {None, 2^k}, slopes, rnd/floor, use_ste, quadratic in the thorough tier)" % len(cfgs),
              "input: one symbolic float32; region main = finite, non-subnormal, |x| < 2^(24+kmax) (exactness of the STE residual); "
              "region huge (beyond it) is queried separately and its failures are a recorded finding",
              "inside the tie windows (+-2^-13 relative around sqrt(2)*2^k for rnd, around 2^k for floor) either neighbouring exponent "
              "is accepted by the solver oracle; every float32 inside every window is enumerated concretely for the monotone clause",
              "quadratic_approximation is not part of the property's configuration space and is not covered"]
  r.assumptions = ["Log kernel contract: interval per exponent, side of sqrt(2) outside the window, strictly inside (2^k,2^(k+1)) away from "
                   "the ends (slack 3e-5) - validated on %d values this run; NOT assumed monotone (it is not)" % npts,
                   "Pow(2,e) contract: exact 2^e for integral e in [-126,127], 0 below (flush), inf above - validated on all 301 integral e",
                   "Sqrt (quadratic approximation) encoded exactly (IEEE correctly rounded)"]
  for i, (cls, kw) in enumerate(cfgs):
    try:
      one_config(r, cls, kw, rng, i)
    except tfg.Unsupported as e:
      r.inconclusive_("cannot translate %s: %s" % (qz.cfg_str(cls, kw), e))
  r.discharge()
  triage(r)
  return r.finish("Per configuration a QF_BVFP query over the traced graph (Log/Pow as contract stubs) decides, for every float32 in the "
                  "region, that the output bit pattern is sign|exponent|0-mantissa with the exponent equal to the clamp of the "
                  "log2-nearest (or floor) exponent computed from the input's own exponent/mantissa fields; idempotence is a second "
                  "query over all admissible powers of two; tie windows and floor-mode powers of two are enumerated exhaustively.")
