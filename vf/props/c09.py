"""C09 - quantizer configuration round-trip reproduces the same quantization function."""
import copy
import numpy as np

from .. import harness, ir, qz, tfg, equiv, qlattice

PROP = "C09"
ROUTES = ("from_config", "get_quantizer_dict", "serialize_deserialize")


def rebuild(route, q, cls):
  import tensorflow as tf
  Q = qz.Q()
  if route == "from_config":
    return type(q).from_config(copy.deepcopy(q.get_config()))
  if route == "get_quantizer_dict":
    return Q.get_quantizer({"class_name": cls, "config": copy.deepcopy(q.get_config())})
  if route == "str":
    return Q.get_quantizer(str(q))
  if route == "serialize_deserialize":
    from qkeras.utils import _add_supported_quantized_objects
    co = {}
    _add_supported_quantized_objects(co)
    import tensorflow.keras as keras      # the Keras the library builds on (tf.keras resolves to legacy tf_keras once qkeras is imported)
    return keras.utils.deserialize_keras_object(keras.utils.serialize_keras_object(q), custom_objects=co)
  raise ValueError(route)


def fn_of(q):
  import tensorflow as tf

  def f(x):
    y = q(x)
    s = getattr(q, "scale", None)
    if s is None:
      return y
    return y, tf.convert_to_tensor(s, dtype=tf.float32)
  return f


def eager_pair(qa, qb, x, seed=7):
  """outputs and scales of both objects on a concrete tensor (same random seed)"""
  import tensorflow as tf
  res = []
  for q in (qa, qb):
    tf.random.set_seed(seed)
    y = np.asarray(q(tf.constant(x, tf.float32)), dtype=np.float32)
    s = getattr(q, "scale", None)
    s = None if s is None else np.asarray(s, dtype=np.float32)
    res.append((y, s))
  return res


def differs(ra, rb):
  (ya, sa), (yb, sb) = ra, rb
  if ya.shape != yb.shape or not np.array_equal(np.nan_to_num(ya, nan=12345.0), np.nan_to_num(yb, nan=12345.0)):
    return "outputs differ"
  if (sa is None) != (sb is None):
    return "scale present on one side only"
  if sa is not None:
    try:
      if not np.array_equal(np.broadcast_to(sa, np.broadcast_shapes(sa.shape, sb.shape)), np.broadcast_to(sb, np.broadcast_shapes(sa.shape, sb.shape))):
        return "scales differ"
    except ValueError:
      return "scale shapes differ"
  return None


def omitted_keys(cls, kw, q):
  cfg = q.get_config()
  return sorted(k for k in kw if k not in cfg)


def culprit(cls, kw, route, phase, x):
  """Which option is responsible?  Smallest sets of non-base options (singles, then pairs) whose configuration still fails
  on the witness / probe tensors.  Identifies the call-site class of a finding precisely."""
  import itertools
  base = qlattice.BASE[cls]
  extra = sorted(k for k in kw if k not in base or base[k] != kw[k])
  shape = qlattice.shape_for(cls, kw)
  rs = np.random.RandomState(99)
  xs = [np.asarray(x, dtype=np.float32).reshape(shape)] if x is not None else []
  xs += [(rs.randn(*shape) * s).astype(np.float32) if shape else np.float32(rs.randn() * s) for s in (0.3, 1.0, 4.0, 20.0)]
  xs += [np.full(shape, v, dtype=np.float32) for v in (0.3, -0.7, 3.0, -30.0)]

  def fails(k2):
    try:
      qz.set_learning_phase(phase)
      q = qz.make(cls, k2)
      q2 = rebuild(route, q, cls)
      for xv in xs:
        if qlattice.shape_for(cls, k2) != shape:
          xv = np.asarray(xv).reshape(-1)[:1].reshape(()) if not qlattice.shape_for(cls, k2) else xv
        if differs(*eager_pair(q, q2, np.asarray(xv, dtype=np.float32))):
          return True
    except Exception:  # pylint: disable=broad-except
      return True
    return False

  for r_ in (1, 2):
    hits = []
    for ks in itertools.combinations(extra, r_):
      k2 = dict(base)
      k2.update({k: kw[k] for k in ks})
      if qlattice.compatible(cls, k2) and fails(k2):
        hits.append("+".join(ks))
    if hits:
      return hits[0]
  return "+".join(extra)


def one(run, cls, kw, idx, rng, phases, routes=ROUTES):
  cfg = qz.cfg_str(cls, kw)
  shape = qlattice.shape_for(cls, kw)
  for phase in phases:
    qz.set_learning_phase(phase)
    try:
      q = qz.make(cls, kw)
    except Exception as e:  # pylint: disable=broad-except
      run.inconclusive_("cannot construct %s: %r" % (cfg, e))
      return
    for route in routes:
      oid = "%03d_%s_p%d" % (idx, route, phase)
      meta = dict(cls=cls, kw=kw, route=route, phase=phase, shape=list(shape))
      try:
        q2 = rebuild(route, q, cls)
      except Exception as e:  # pylint: disable=broad-except
        run.concrete_checks += 1
        run.violation(dict(clause="route_raises", route=route, cls=cls, error=type(e).__name__), dict(cfg=cfg, error=repr(e)[:300]),
                      dict(clause="route_raises", cls=cls, kw=kw, route=route))
        continue
      if type(q2) is not type(q):
        run.violation(dict(clause="wrong_class", route=route, cls=cls), dict(cfg=cfg, got=type(q2).__name__), dict(clause="wrong_class", cls=cls, kw=kw, route=route))
        continue

      def confirm(w, q=q, q2=q2):
        x = np.zeros(shape, dtype=np.float32).reshape(-1)
        names = [n for n in sorted(w) if n.startswith("x")]
        xs = tfg_names(shape)
        for i, n in enumerate(xs):
          x[i] = np.float32(w.get(n, 0.0))
        x = x.reshape(shape)
        qz.set_learning_phase(phase)
        # random draws are shared symbolic values in the encoding; on the real objects several seeds are tried
        for sd in ((7, 11, 13, 17, 19, 23) if phase else (7,)):
          ra, rb = eager_pair(q, q2, x, seed=sd)
          why = differs(ra, rb)
          if why:
            break
        return why is not None, dict(x=x.tolist(), why=why, out=ra[0].tolist(), out_rebuilt=rb[0].tolist(),
                                     scale=None if ra[1] is None else ra[1].tolist(), scale_rebuilt=None if rb[1] is None else rb[1].tolist())

      try:
        b = ir.Builder()
        ta = qz.Traced(q, shape, builder=b, fn=fn_of(q))
        tb = qz.Traced(q2, shape, builder=b, fn=fn_of(q2))
      except tfg.Unsupported as e:
        # not translatable: concrete comparison only, reported as outside the solver claim
        run.aux.setdefault("untranslated", []).append("%s: %s" % (cfg, e))
        x = (rng.randn(*shape) * 2).astype(np.float32) if shape else np.float32(rng.randn() * 2)
        qz.set_learning_phase(phase)
        why = differs(*eager_pair(q, q2, np.asarray(x, dtype=np.float32)))
        run.concrete_checks += 1
        if why:
          run.violation(dict(clause="function", route=route, cls=cls, culprit=culprit(cls, kw, route, phase, np.asarray(x).tolist())), dict(cfg=cfg, why=why, x=np.asarray(x).tolist()),
                        dict(clause="function", cls=cls, kw=kw, route=route, phase=phase, x=np.asarray(x).tolist()))
        continue
      if len(ta.outputs) != len(tb.outputs):
        run.violation(dict(clause="scale_presence", route=route, cls=cls), dict(cfg=cfg), dict(clause="function", cls=cls, kw=kw, route=route, phase=phase, x=np.zeros(shape).tolist()))
        continue
      outsA = np.concatenate([o.reshape(-1) for o in ta.outputs])
      outsB = np.concatenate([o.reshape(-1) for o in tb.outputs])
      if outsA.shape != outsB.shape:
        run.violation(dict(clause="shape", route=route, cls=cls), dict(cfg=cfg), dict(clause="function", cls=cls, kw=kw, route=route, phase=phase, x=np.zeros(shape).tolist()))
        continue
      inputs = ta.xs()
      dom = [qz.finite_normal(x) for x in inputs] + [qz.abs_lt(x, 2.0 ** 20) for x in inputs]
      if shape:
        dom += [ir.L("(or (fp.isZero {0}) (fp.geq (fp.abs {0}) %s))" % ir.fp_lit(2.0 ** -20), x) for x in inputs]
      names = [n.attr for n in inputs]
      prs = np.random.RandomState(1234)
      probes = [dict(zip(names, vals)) for vals in ([0.3] * len(names), [-0.7] * len(names), [3.0] * len(names), [-30.0] * len(names))]
      probes += [dict(zip(names, (prs.randn(len(names)) * s).astype(np.float32).tolist())) for s in (0.05, 0.5, 0.5, 2.0, 2.0, 8.0, 64.0)]
      v = equiv.decide(run, oid, b, outsA, outsB, inputs, dom, confirm, meta, fp=False, probes=probes)
      if v.kind == "inconclusive":
        # exact miter, discharged later on the pool together with all the others
        run.obls.pop()
        res_smt = equiv.fp_miter_text(b, outsA, outsB, dom)
        o = run.add(oid, res_smt, meta=meta, timeout=600 if run.quick() else 1800)
        o.confirm, o.sig = confirm, dict(clause="function", route=route, cls=cls, culprit="?")
        o.cfg, o.inputs = cfg, [n.attr for n in inputs]
        continue
      if v.kind == "different":
        run.violation(dict(clause="function", route=route, cls=cls, culprit=culprit(cls, kw, route, phase, v.detail.get("x"))), dict(cfg=cfg, how=v.how, **v.detail),
                      dict(clause="function", cls=cls, kw=kw, route=route, phase=phase, x=v.detail.get("x")))
      elif v.kind == "inconclusive":
        run.inconclusive_("%s %s: %s" % (cfg, route, v.how))
  run.configs.append(cfg)


def tfg_names(shape):
  if not shape:
    return ["x"]
  return ["x" + "".join("_%d" % k for k in idx) for idx in np.ndindex(*shape)]


def replay_concrete(rep):
  cls, kw, route = rep["cls"], rep["kw"], rep.get("route")
  if rep["clause"] == "registry":
    from qkeras import quantizer_registry
    c = quantizer_registry.lookup_quantizer(rep["name"])
    return c.__name__ != rep["name"], dict(got=c.__name__)
  qz.set_learning_phase(rep.get("phase", 0))
  q = qz.make(cls, kw)
  try:
    q2 = rebuild(route, q, cls)
  except Exception as e:  # pylint: disable=broad-except
    return rep["clause"] == "route_raises", dict(error=repr(e)[:300])
  if rep["clause"] == "route_raises":
    return False, dict(note="route succeeded")
  if rep["clause"] == "wrong_class":
    return type(q2) is not type(q), dict(got=type(q2).__name__)
  x = np.asarray(rep["x"], dtype=np.float32)
  ra, rb = eager_pair(q, q2, x)
  why = differs(ra, rb)
  return why is not None, dict(why=why, out=ra[0].tolist(), out_rebuilt=rb[0].tolist())


def replay(body):
  ok, detail = replay_concrete(body["replay"])
  print("replay:", detail, "-> violation reproduced" if ok else "-> not reproduced")
  return ok


def run(tier, seed):
  r = harness.Run(PROP, "translation_validation", tier, seed)
  rng = np.random.RandomState(seed)
  cfgs = qlattice.lattice(tier, seed)
  # registry: finite, exhaustive
  from qkeras import quantizer_registry
  names = sorted(quantizer_registry._QUANTIZERS_REGISTRY._container.keys())     # pylint: disable=protected-access
  for n in names:
    r.concrete_checks += 1
    c = quantizer_registry.lookup_quantizer(n)
    if getattr(c, "__name__", None) != n:
      r.violation(dict(clause="registry", name=n), dict(got=getattr(c, "__name__", repr(c))), dict(clause="registry", cls=n, kw={}, name=n))
  r.aux["registry_names_checked"] = len(names)
  missing = sorted(set(qlattice.BASE) - set(names))
  if missing:
    r.violation(dict(clause="registry_missing"), dict(missing=missing), dict(clause="registry", cls=missing[0], kw={}, name=missing[0]))
  for i, (cls, kw) in enumerate(cfgs):
    phases = (0, 1) if qlattice.stochastic(cls, kw) else (0,)
    try:
      one(r, cls, kw, i, rng, phases)
    except Exception as e:  # pylint: disable=broad-except
      import traceback
      traceback.print_exc()
      r.inconclusive_("harness error on %s: %r" % (qz.cfg_str(cls, kw), e))
  r.discharge()
  for o in r.obls:
    if getattr(o, "confirm", None) is None or o.result is None:
      continue
    if o.result.verdict == "unsat":
      continue
    if o.result.verdict == "sat":
      w = {n: float(ir.bits_f32(o.result.model.get(n + "_b", 0))) for n in o.inputs}
      qz.set_learning_phase(o.meta.get("phase", 0))
      ok, detail = o.confirm(w)
      if ok:
        o.sig["culprit"] = culprit(o.meta["cls"], o.meta["kw"], o.meta["route"], o.meta.get("phase", 0), detail.get("x"))
        r.violation(o.sig, dict(cfg=o.cfg, how="fp-miter", **detail), dict(clause="function", cls=o.meta["cls"], kw=o.meta["kw"], route=o.meta["route"],
                                                                        phase=o.meta.get("phase", 0), x=detail.get("x")))
      else:
        r.inconclusive_("%s %s: miter counterexample does not reproduce: %s" % (o.cfg, o.meta["route"], str(detail)[:300]))
    else:
      r.inconclusive_("%s %s: solver answered %s" % (o.cfg, o.meta["route"], o.result.verdict))
  qz.set_learning_phase(0)
  obls = [o for o in r.obls if not o.twin]
  structural = sum(1 for o in obls if o.result is not None and o.result.solver == "hash-consing")
  r.aux.update(programs=len(r.configs), equivalences_structural=structural,
               disagreements_checked=sum(1 for o in obls if o.result is not None and o.result.verdict == "sat"))
  r.functions = ["get_config/from_config of all 14 registered quantizer classes", "get_quantizer (dict branch)", "quantizer_registry.lookup_quantizer",
                 "every quantizer's __call__ (both the original and the rebuilt object are traced)"]
  r.bounds = ["%d configurations (defaults, every single option variation, %s option pairs) x 3 rebuild routes x learning phase {0,1} for "
              "stochastic configurations" % (len(cfgs), "all" if tier == "thorough" else "seed-chosen"),
              "functional equality for all inputs: scalar tensor for element-wise configurations, (2,2) tensor for data-dependent scales; "
              "|x| < 2^20, non-zero elements >= 2^-20; outputs AND the exposed scale are compared",
              "stochastic paths: K.learning_phase (absent under the pinned Keras) is stubbed; random draws are shared symbolic values"]
  r.assumptions = ["K.learning_phase environment stub", "equality decided by hash-consing, else z3 real relaxation (proposals only, replayed), else QF_BVFP miter"]
  r.trusted = ["TensorFlow tracer", "vf.tfg translation", "cvc5 / z3 for the (rare) non-structural cases"]
  code = r.finish("Each configuration is rebuilt through its own get_config (directly, through get_quantizer(dict) and through Keras "
                  "serialize/deserialize with the library's custom-object table); original and rebuilt object are traced on the same symbolic "
                  "tensor in one hash-consed term store: identical output and scale terms prove equality for every input, otherwise a "
                  "distinguishing input is searched (real relaxation, then exact miter) and replayed on the two real objects.")
  return code
