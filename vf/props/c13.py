"""C13 - saving, cloning or reloading a quantized model preserves its predictions."""
import os
import random
import shutil
import tempfile
import numpy as np

from .. import harness, ir, qz, tfg, equiv, layers, qlattice

PROP = "C13"
ROUTES = ("json", "clone", "h5")

WEIGHT_Q = [("quantized_bits", dict(bits=4, integer=0, symmetric=1)), ("quantized_bits", dict(bits=4, integer=0, symmetric=1, alpha=1)),
            ("quantized_bits", dict(bits=6, integer=1, alpha="auto", scale_axis=0)), ("quantized_bits", dict(bits=4, integer=0, alpha="auto_po2", min_po2_exponent=-2, max_po2_exponent=1)),
            ("quantized_linear", dict(bits=4, integer=1)), ("quantized_linear", dict(bits=4, integer=0, alpha="auto_po2")),
            ("binary", dict(alpha=1.0)), ("binary", dict(alpha="auto", scale_axis=0)), ("binary", dict(use_01=True, alpha="auto_po2")),
            ("ternary", dict(alpha=1.0)), ("ternary", dict(alpha="auto")), ("quantized_po2", dict(bits=4)), ("quantized_po2", dict(bits=4, max_value=2.0, log2_rounding="floor")),
            ("quantized_bits", dict(bits=4, integer=0, use_ste=False, qnoise_factor=0.5)), ("stochastic_ternary", dict(alpha="auto")),
            ("stochastic_binary", dict(alpha="auto"))]
ACT_Q = [("quantized_relu", dict(bits=4, integer=1)), ("quantized_relu", dict(bits=6, integer=2, negative_slope=0.25)),
         ("quantized_relu", dict(bits=4, integer=1, is_quantized_clip=False, relu_upper_bound=1.0)), ("quantized_relu_po2", dict(bits=4)),
         ("quantized_relu_po2", dict(bits=4, negative_slope=0.125, max_value=2.0)), ("quantized_po2", dict(bits=4)), ("binary", dict(alpha=1.0)),
         ("ternary", dict(alpha=1.0, threshold=0.5)), ("quantized_relu", dict(bits=4, integer=1, use_ste=False, qnoise_factor=0.5))]
BIAS_Q = [("quantized_bits", dict(bits=4, integer=0)), ("quantized_po2", dict(bits=4)), ("quantized_bits", dict(bits=6, integer=2, alpha=1)), None]


def mkq(c):
  if c is None:
    return None
  return qz.make(c[0], c[1])


def template(kind, rr):
  """returns (model, description).  Quantizer objects (not strings) are passed so that every option is exercised."""
  keras = layers.K3()
  Q = layers.qk()
  w = lambda: mkq(rr.choice(WEIGHT_Q))
  a = lambda: mkq(rr.choice(ACT_Q))
  bq = lambda: mkq(rr.choice(BIAS_Q))
  if kind == "conv":
    i = keras.Input((4, 4, 2))
    y = Q.QConv2D(2, 2, kernel_quantizer=w(), bias_quantizer=bq(), activation=a(), name="c")(i)
    y = Q.QActivation(a(), name="a")(y)
    y = Q.QAveragePooling2D(2, average_quantizer=mkq(("quantized_bits", dict(bits=8, integer=0, symmetric=1, alpha=1))), name="p")(y)
    y = keras.layers.Flatten(name="f")(y)
    y = Q.QDense(3, kernel_quantizer=w(), bias_quantizer=bq(), name="d")(y)
  elif kind == "depthsep":
    i = keras.Input((4, 4, 2))
    y = Q.QDepthwiseConv2D(2, depthwise_quantizer=w(), bias_quantizer=bq(), depth_multiplier=2, name="dw")(i)
    y = Q.QSeparableConv2D(2, 2, depthwise_quantizer=w(), pointwise_quantizer=w(), bias_quantizer=bq(), activation=a(), padding="same", name="s")(y)
    y = Q.QGlobalAveragePooling2D(average_quantizer=mkq(("quantized_bits", dict(bits=8, integer=0, symmetric=1, alpha=1))), name="g")(y)
    y = Q.QDense(2, kernel_quantizer=w(), use_bias=False, name="d")(y)
  elif kind == "conv1d":
    i = keras.Input((5, 2))
    y = Q.QConv1D(2, 2, padding="causal", dilation_rate=2, kernel_quantizer=w(), bias_quantizer=bq(), name="c1")(i)
    y = Q.QSeparableConv1D(2, 2, depthwise_quantizer=w(), pointwise_quantizer=w(), bias_quantizer=bq(), name="s1")(y)
    y = Q.QActivation(a(), name="a")(y)
    y = keras.layers.Flatten(name="f")(y)
    y = Q.QDense(2, kernel_quantizer=w(), bias_quantizer=bq(), activation=a(), name="d")(y)
  elif kind == "dense":
    i = keras.Input((3,))
    y = Q.QDense(3, kernel_quantizer=w(), bias_quantizer=bq(), activation=a(), name="d1")(i)
    y = Q.QScaleShift(weight_quantizer=w(), bias_quantizer=bq(), name="ss")(y)
    y = Q.QDense(2, kernel_quantizer=w(), bias_quantizer=bq(), name="d2")(y)
  elif kind == "adaptive":
    # both flavours in every model, every option away from its default (a key dropped from get_config only shows then)
    i = keras.Input((3,))
    y = Q.QDense(3, kernel_quantizer=w(), bias_quantizer=bq(), name="d1")(i)
    y = Q.QAdaptiveActivation("quantized_relu", rr.choice([4, 6]), relu_neg_slope=rr.choice([0.125, 0.25]), relu_upper_bound=rr.choice([0.5, 2.0]),
                              po2_rounding=True, per_channel=rr.choice([False, True]), quantization_delay=3, ema_decay=0.9, name="qa")(y)
    y = Q.QDense(2, kernel_quantizer=w(), bias_quantizer=bq(), name="d2")(y)
    y = Q.QAdaptiveActivation("quantized_bits", rr.choice([4, 8]), symmetric=False, po2_rounding=rr.choice([False, True]),
                              per_channel=rr.choice([False, True]), ema_decay=0.99, quantization_delay=5, ema_freeze_delay=rr.choice([None, 7]), name="qb")(y)
    y = Q.QDense(2, kernel_quantizer=w(), bias_quantizer=bq(), name="d3")(y)
  else:
    raise ValueError(kind)
  return keras.Model(i, y)


def rebuild(route, model, tmp):
  from qkeras import utils as U
  if route == "json":
    m2 = U.quantized_model_from_json(model.to_json())
    m2.set_weights(model.get_weights())
    return m2
  if route == "clone":
    return U.clone_model(model)
  if route == "h5":
    path = os.path.join(tmp, "m.h5")
    model.save(path)
    return U.load_qmodel(path)       # no user custom objects
  raise ValueError(route)


def qstrs(layer):
  out = []
  if hasattr(layer, "get_quantizers"):
    out += [str(q) if q is not None else None for q in layer.get_quantizers()]
  if getattr(layer, "quantizer", None) is not None and not hasattr(layer, "get_quantizers"):
    out.append(str(layer.quantizer))
  act = getattr(layer, "activation", None)
  if act is not None and hasattr(act, "__call__") and hasattr(act, "get_config") and not isinstance(act, type):
    try:
      out.append("act:" + str(act))
    except Exception:  # pylint: disable=broad-except
      pass
  return out


def describe(model):
  return [(type(l).__name__, l.name, qstrs(l)) for l in model.layers]


def one_model(run, idx, kind, seed):
  import tensorflow as tf
  rr = random.Random(seed)
  try:
    model = template(kind, rr)
  except Exception as e:  # pylint: disable=broad-except
    run.aux.setdefault("not_constructible", []).append("%s/%d: %r" % (kind, seed, str(e)[:200]))
    return
  desc = describe(model)
  tag = "%s#%d" % (kind, seed)
  run.configs.append(tag)
  if len(run.samples) < 6:
    run.samples.append(dict(model=tag, layers=desc))
  rs = np.random.RandomState(seed)
  model.set_weights([(rs.randn(*w.shape) * 0.7).astype(np.float32) for w in model.get_weights()])
  x = (rs.randn(3, *model.input_shape[1:]) * 1.5).astype(np.float32)
  qz.set_learning_phase(0)
  y0 = np.asarray(model(x))
  tmp = tempfile.mkdtemp(prefix="c13_", dir=harness.solve.workdir())
  try:
    for route in ROUTES:
      rep = dict(kind=kind, seed=seed, route=route)
      try:
        m2 = rebuild(route, model, tmp)
      except Exception as e:  # pylint: disable=broad-except
        run.concrete_checks += 1
        run.violation(dict(clause="route_raises", route=route, error=type(e).__name__), dict(model=tag, layers=desc, error=repr(e)[:300]), dict(clause="route_raises", **rep))
        continue
      run.concrete_checks += 1
      d2 = describe(m2)
      if [(c, n) for c, n, _ in desc] != [(c, n) for c, n, _ in d2]:
        run.violation(dict(clause="topology", route=route), dict(model=tag, before=desc, after=d2), dict(clause="topology", **rep))
        continue
      for (c, n, q1), (_, _, q2) in zip(desc, d2):
        if q1 != q2:
          run.violation(dict(clause="reported_quantizers", route=route, layer=c), dict(model=tag, layer=n, before=q1, after=q2), dict(clause="reported_quantizers", **rep))
      w1, w2 = model.get_weights(), m2.get_weights()
      if len(w1) != len(w2) or not all(np.array_equal(a, b_) for a, b_ in zip(w1, w2)):
        run.violation(dict(clause="weights", route=route), dict(model=tag), dict(clause="weights", **rep))
      y1 = np.asarray(m2(x))
      if not np.array_equal(y0, y1):
        run.violation(dict(clause="predictions", route=route), dict(model=tag, layers=desc, max_abs_diff=float(np.abs(y0 - y1).max())), dict(clause="predictions", **rep))
      # for every input and every weight value: layer-by-layer functional equality
      for li, (L, L2) in enumerate(zip(model.layers, m2.layers)):
        if type(L).__name__ in ("InputLayer", "Flatten"):
          continue
        layer_equiv(run, "%03d_%s_%s" % (idx, route, L.name), L, L2, dict(model=tag, route=route, layer=type(L).__name__, name=L.name), rep)
  finally:
    shutil.rmtree(tmp, ignore_errors=True)


def layer_equiv(run, oid, L, L2, meta, rep):
  import tensorflow as tf
  sample = tuple(int(d) for d in L.input.shape[1:])
  a1, a2 = layers.weight_attrs(L), layers.weight_attrs(L2)
  shapes = [(1,) + sample] + layers.weight_shapes(L)
  names = ["x"] + ["w%d" % i for i in range(len(a1))]
  f1, f2 = layers.inject_call(L, a1), layers.inject_call(L2, a2)

  def confirm(w):
    ts = layers.witness_tensors(w, names, shapes)
    r1 = np.asarray(f1(*[tf.constant(t) for t in ts]))
    r2 = np.asarray(f2(*[tf.constant(t) for t in ts]))
    restore()
    return (not np.array_equal(r1, r2)), dict(inputs=[t.tolist() for t in ts], out=r1.tolist(), out_rebuilt=r2.tolist())

  saved = [(L, a1, [getattr(L, n) for n in a1]), (L2, a2, [getattr(L2, n) for n in a2])]

  def restore():
    for lay, at, vals in saved:
      for n, v in zip(at, vals):
        object.__setattr__(lay, n, v)
  try:
    b = ir.Builder()
    ta = layers.MultiTraced(f1, names, shapes, b)
    tb = layers.MultiTraced(f2, names, shapes, b)
  except tfg.Unsupported as e:
    restore()
    run.aux.setdefault("untranslated", []).append("%s %s: %s" % (meta["model"], meta["name"], e))
    return
  finally:
    restore()
  inputs = ta.input_nodes()
  dom = [qz.finite_normal(x) for x in inputs] + [qz.abs_lt(x, 2.0 ** 10) for x in inputs]
  rs = np.random.RandomState(len(oid))
  probes = [{n.attr: float(v) for n, v in zip(inputs, (rs.randn(len(inputs)) * s).astype(np.float32))} for s in (0.3, 1.0, 3.0)]
  v = equiv.decide(run, oid, b, ta.out, tb.out, inputs, dom, confirm, meta, fp=True, probes=probes, timeout=600,
                   relax_kw=dict(lo=2.0 ** -4, hi=4.0, margin=1e-2, timeout_ms=10000))
  restore()
  if v.kind == "different":
    run.violation(dict(clause="layer_function", route=meta["route"], layer=meta["layer"]), dict(meta, **{k: v.detail[k] for k in ("out", "out_rebuilt") if k in v.detail}),
                  dict(clause="layer_function", layer_name=meta["name"], inputs=v.detail.get("inputs"), **rep))
  elif v.kind == "inconclusive":
    run.inconclusive_("%s %s: %s" % (meta["model"], meta["name"], v.how))


def replay_concrete(rep):
  import tensorflow as tf
  rr = random.Random(rep["seed"])
  model = template(rep["kind"], rr)
  rs = np.random.RandomState(rep["seed"])
  model.set_weights([(rs.randn(*w.shape) * 0.7).astype(np.float32) for w in model.get_weights()])
  x = (rs.randn(3, *model.input_shape[1:]) * 1.5).astype(np.float32)
  qz.set_learning_phase(0)
  tmp = tempfile.mkdtemp(prefix="c13r_")
  try:
    try:
      m2 = rebuild(rep["route"], model, tmp)
    except Exception as e:  # pylint: disable=broad-except
      return rep["clause"] == "route_raises", dict(error=repr(e)[:300])
    if rep["clause"] == "route_raises":
      return False, {}
    if rep["clause"] == "topology":
      return [(c, n) for c, n, _ in describe(model)] != [(c, n) for c, n, _ in describe(m2)], {}
    if rep["clause"] == "reported_quantizers":
      return describe(model) != describe(m2), dict(before=describe(model), after=describe(m2))
    if rep["clause"] == "weights":
      return not all(np.array_equal(a, b_) for a, b_ in zip(model.get_weights(), m2.get_weights())), {}
    if rep["clause"] == "predictions":
      return not np.array_equal(np.asarray(model(x)), np.asarray(m2(x))), {}
    if rep["clause"] == "layer_function":
      L, L2 = model.get_layer(rep["layer_name"]), m2.get_layer(rep["layer_name"])
      ts = [np.asarray(t, dtype=np.float32) for t in rep["inputs"]]
      r1 = np.asarray(layers.inject_call(L, layers.weight_attrs(L))(*[tf.constant(t) for t in ts]))
      r2 = np.asarray(layers.inject_call(L2, layers.weight_attrs(L2))(*[tf.constant(t) for t in ts]))
      return not np.array_equal(r1, r2), dict(out=r1.tolist(), out_rebuilt=r2.tolist())
  finally:
    shutil.rmtree(tmp, ignore_errors=True)
  return False, {}


def replay(body):
  ok, detail = replay_concrete(body["replay"])
  print("replay:", str(detail)[:800], "-> violation reproduced" if ok else "-> not reproduced")
  return ok


def run(tier, seed):
  r = harness.Run(PROP, "translation_validation", tier, seed)
  kinds = ["conv", "depthsep", "conv1d", "dense", "adaptive"]
  n_per = 2 if tier == "quick" else 12
  idx = 0
  for k in kinds:
    for j in range(n_per):
      idx += 1
      try:
        one_model(r, idx, k, seed * 1000 + 17 * j + len(k))
      except Exception as e:  # pylint: disable=broad-except
        import traceback
        traceback.print_exc()
        r.inconclusive_("harness error on %s: %r" % (k, e))
  obls = [o for o in r.obls if not o.twin]
  r.aux.update(programs=len(r.configs), equivalences_structural=sum(1 for o in obls if o.result is not None and o.result.solver == "hash-consing"),
               disagreements_checked=sum(1 for o in obls if o.result is not None and o.result.verdict == "sat"))
  r.functions = ["utils.quantized_model_from_json", "utils.clone_model", "utils.load_qmodel", "utils._add_supported_quantized_objects",
                 "get_config/from_config of QDense, QConv1D/2D, QDepthwiseConv2D, QSeparableConv1D/2D, QAveragePooling2D, QGlobalAveragePooling2D, "
                 "QScaleShift, QActivation, QAdaptiveActivation and of the quantizers inside them", "Clip / QInitializer configs"]
  r.bounds = ["%d generated models (5 templates x %d seeded quantizer assignments from a pool of %d weight / %d activation / %d bias quantizer "
              "configurations) x 3 routes" % (len(r.configs), n_per, len(WEIGHT_Q), len(ACT_Q), len(BIAS_Q)),
              "routes are executed concretely (success, topology, reported quantizers, restored weights and eager predictions on one batch are "
              "compared); then every layer pair is traced with symbolic input and weights and proved equal for all values",
              "recurrent / transpose / batch-norm / folded layer classes cannot be constructed under the pinned Keras 3; activation quantizers that "
              "call K.cast_to_floatx cannot be used as functional-model activations here - both outside the claim"]
  r.assumptions = ["file I/O and Keras (de)serialisation run concretely; the solver part is the for-all-inputs-and-weights equality per layer"]
  return r.finish("Models are rebuilt through JSON, clone_model and HDF5 save + load_qmodel (no user custom objects); each original/rebuilt layer "
                  "pair is traced with shared symbolic input and weights into one hash-consed term store, where identical output terms prove "
                  "bit-identical behaviour for every input and weight value; differences are replayed on the real layers.")
