"""C10 - quantizer strings parse as the equivalent Python call and str(q) re-parses to q."""
import itertools
import numpy as np

from .. import harness, ir, qz, qlattice
from . import c09

PROP = "C10"


class Rec(object):
  def __call__(self, *a, **k):
    return list(a), dict(k)


def literal_cases():
  """(text of the argument list, expected args, expected kwargs).  Python evaluates the text where it is Python;
  the space-separated number list is the library's own list syntax and its expectation is built here."""
  ints = ["0", "4", "-3", "+7", "12"]
  floats = ["0.5", "-1.25", "1e-3", "2.5E2", "-3e+2", ".5", "6."]
  consts = ["True", "False", "None"]
  strs = ["'auto'", '"auto_po2"', "'floor'", "'True'", "'3'", "'a_b'"]
  atoms = ints + floats + consts + strs
  cases = []
  rec = Rec()
  for a in atoms:
    cases.append("(%s)" % a)
    cases.append("(k=%s)" % a)
    cases.append("(4, %s)" % a)
    cases.append("(4,%s,name=%s)" % (a, a))
  for a, b2, c in itertools.product(ints[:3], floats[:3], consts):
    cases.append("(%s, %s, flag=%s)" % (a, b2, c))
    cases.append("(%s,alpha=%s,other=%s)" % (a, strs[0], b2))
  cases += ["()", "(4, 0, 1)", "( 4 ,0 , 1 )", "(bits=4, integer=0)", "(8,alpha='auto',use_stochastic_rounding=True)"]
  out = []
  for s in cases:
    a, k = eval("rec" + s, {"rec": rec})      # pylint: disable=eval-used  (the harness's own generated text)
    out.append((s, a, k))
  out.append(("(scale_axis=[0 1])", [], {"scale_axis": [0, 1]}))
  out.append(("(1, elements_per_scale=[2 4], k=1.5)", [1], {"elements_per_scale": [2, 4], "k": 1.5}))
  return out


def same_value(a, b):
  if type(a) is not type(b):
    return False
  if isinstance(a, list):
    return len(a) == len(b) and all(same_value(x, y) for x, y in zip(a, b))
  return a == b


def text_to_args(run):
  import importlib
  safe_eval = importlib.import_module("qkeras.safe_eval")
  n = 0
  for s, ea, ek in literal_cases():
    n += 1
    try:
      a, k = safe_eval.GetParams(s)
    except Exception as e:  # pylint: disable=broad-except
      run.violation(dict(clause="text_to_args", kind="raises"), dict(text=s, error=repr(e)[:200]), dict(clause="text_to_args", text=s))
      continue
    ok = len(a) == len(ea) and all(same_value(x, y) for x, y in zip(a, ea)) and set(k) == set(ek) and all(same_value(k[n_], ek[n_]) for n_ in ek)
    if not ok:
      run.violation(dict(clause="text_to_args", kind="differs"), dict(text=s, got=[a, k], expected=[ea, ek]), dict(clause="text_to_args", text=s))
  for s in ["(bits=4, 1)", "(alpha='auto', 4, 1)", "(4, k=1, 2)"]:
    n += 1
    try:
      safe_eval.GetParams(s)
      run.violation(dict(clause="text_to_args", kind="order_not_rejected"), dict(text=s), dict(clause="text_to_args_order", text=s))
    except SyntaxError:
      pass
  run.concrete_checks += n
  run.aux["text_to_args_cases_enumerated"] = n


# ---- symbolic argument tokens: safe_eval.GetArg executed on a z3 string (engine B) --------------------------------------
ALPHABET = "abcdefghijklmnopqrstuvwxyzTFN0123456789_.+-eE'\""
MAXLEN = 8


def validate_builtin_contracts(run, rng):
  """the regular languages assumed for int()/float() agree with the real builtins on strings over the alphabet"""
  import z3
  from .. import pysym
  import itertools
  chars = "0123456789+-._eEnaif'T"
  samples = ["".join(p) for n in (1, 2, 3) for p in itertools.product("019+-._eE", repeat=n)]
  samples += ["".join(rng.choice(list(chars), size=rng.randint(1, 8))) for _ in range(1500)]
  samples += ["inf", "-inf", "nan", "Infinity", "1e5", "1E-3", "+.5", "5.", "1_0", "_1", "1_", "1__0", "1e", ".", "-", "+", "e5", "0x10", "1.5e+3", "1.e2"]
  bad = []
  s = z3.String("s")
  for text in samples:
    def acc(fn):
      try:
        fn(text)
        return True
      except ValueError:
        return False
    for name, fn, re_ in (("int", int, pysym.PY_INT_RE), ("float", float, pysym.PY_FLOAT_RE)):
      want = acc(fn)
      got = z3.is_true(z3.simplify(z3.InRe(z3.StringVal(text), re_)))
      if want != got:
        bad.append((name, text, want, got))
  run.concrete_checks += len(samples) * 2
  run.aux["builtin_contract_points"] = len(samples) * 2
  if bad:
    run.inconclusive_("the int()/float() acceptance contracts disagree with the builtins: %s" % bad[:5])


def symbolic_getarg(run):
  import importlib
  import z3
  from .. import pysym
  se = importlib.import_module("qkeras.safe_eval")
  s = z3.String("tok")
  sigma = z3.Star(z3.Union(*[z3.Re(ch) for ch in ALPHABET]))
  D = pysym.DIGIT
  sign = z3.Option(z3.Union(z3.Re("-"), z3.Re("+")))
  body = z3.Star(z3.Union(*[z3.Re(ch) for ch in "abcdefghijklmnopqrstuvwxyzTFN0123456789_.+-eE"]))
  classes = {
      "bool": z3.Union(z3.Re("True"), z3.Re("False")),
      "int": z3.Concat(sign, z3.Plus(D)),
      "float": z3.Concat(sign, z3.Union(z3.Concat(z3.Plus(D), z3.Re("."), z3.Star(D)), z3.Concat(z3.Re("."), z3.Plus(D))),
                         z3.Option(z3.Concat(z3.Union(z3.Re("e"), z3.Re("E")), sign, z3.Plus(D)))),
      "float_exp": z3.Concat(sign, z3.Plus(D), z3.Union(z3.Re("e"), z3.Re("E")), sign, z3.Plus(D)),
      "none": z3.Re("None"),
      "quoted": z3.Union(z3.Concat(z3.Re("'"), body, z3.Re("'")), z3.Concat(z3.Re('"'), body, z3.Re('"'))),
  }
  for cname, cre in classes.items():
    base = [z3.InRe(s, sigma), z3.Length(s) <= MAXLEN, z3.Length(s) >= 1, z3.InRe(s, cre)]

    def fn():
      return se.GetArg(pysym.SymStr(s))
    try:
      with pysym.shadow(se, int=pysym.str_int, float=pysym.str_float):
        paths, limits = pysym.explore(fn, base=base, max_paths=64)
    except Exception as e:  # pylint: disable=broad-except
      run.inconclusive_("symbolic execution of GetArg on class %s failed: %r" % (cname, e))
      continue
    for pc, why in limits:
      run.inconclusive_("path limit in GetArg (%s): %s" % (cname, why))
    for pi, (pc, res, facts) in enumerate(paths):
      # expected result for the class (Python's own literal semantics)
      if cname == "bool":
        bad = z3.BoolVal(not isinstance(res, bool)) if not isinstance(res, bool) else ((s == z3.StringVal("True")) != z3.BoolVal(res))
      elif cname == "int":
        if isinstance(res, pysym.SymInt):
          digits = z3.If(z3.Or(z3.PrefixOf("-", s), z3.PrefixOf("+", s)), z3.SubString(s, 1, z3.Length(s) - 1), s)
          want = z3.If(z3.PrefixOf("-", s), -z3.StrToInt(digits), z3.StrToInt(digits))
          bad = res.e != want
        else:
          bad = z3.BoolVal(True)
      elif cname in ("float", "float_exp"):
        bad = z3.BoolVal(not (isinstance(res, pysym.SymFloatOf) and res.s.e.eq(s)))
      elif cname == "none":
        bad = z3.BoolVal(res is not None)
      else:
        bad = (res.e != z3.SubString(s, 1, z3.Length(s) - 2)) if isinstance(res, pysym.SymStr) else z3.BoolVal(True)
      v, model = harness.z3_query(run, "getarg_%s_p%d" % (cname, pi), list(pc), [bad], dict(clause="getarg_symbolic", token_class=cname))
      if v == "sat":
        sol = z3.Solver()
        sol.add(*pc)
        sol.add(bad)
        sol.check()
        tok = sol.model().eval(s, model_completion=True).as_string()
        rep = dict(clause="getarg_symbolic", token=tok, token_class=cname)
        ok, detail = replay_concrete(rep)
        if ok:
          run.violation(dict(clause="getarg_symbolic", token_class=cname), detail, rep)
        else:
          run.inconclusive_("GetArg counterexample %r does not reproduce: %s" % (tok, detail))
    run.configs.append("getarg:%s" % cname)


def replay_concrete(rep):
  import importlib
  safe_eval = importlib.import_module("qkeras.safe_eval")
  if rep["clause"] == "getarg_symbolic":
    import ast
    tok = rep["token"]
    try:
      got = safe_eval.GetArg(tok)
    except Exception as e:  # pylint: disable=broad-except
      return True, dict(token=tok, error=repr(e)[:200])
    try:
      want = ast.literal_eval(tok)
    except Exception as e:  # pylint: disable=broad-except
      return False, dict(token=tok, note="not a Python literal: %r" % (e,))
    return not same_value(got, want), dict(token=tok, got=repr(got), python=repr(want))
  if rep["clause"] == "text_to_args_order":
    try:
      safe_eval.GetParams(rep["text"])
      return True, {}
    except SyntaxError:
      return False, {}
  if rep["clause"] == "text_to_args":
    for s, ea, ek in literal_cases():
      if s == rep["text"]:
        try:
          a, k = safe_eval.GetParams(s)
        except Exception as e:  # pylint: disable=broad-except
          return True, dict(error=repr(e))
        ok = len(a) == len(ea) and all(same_value(x, y) for x, y in zip(a, ea)) and set(k) == set(ek) and all(same_value(k[n_], ek[n_]) for n_ in ek)
        return not ok, dict(got=[a, k], expected=[ea, ek])
    return False, {}
  if rep["clause"] == "str_raises":
    try:
      str(qz.make(rep["cls"], rep["kw"]))
      return False, {}
    except Exception as e:  # pylint: disable=broad-except
      return True, dict(error=repr(e)[:200])
  return c09.replay_concrete(rep)


def replay(body):
  ok, detail = replay_concrete(body["replay"])
  print("replay:", detail, "-> violation reproduced" if ok else "-> not reproduced")
  return ok


def run(tier, seed):
  r = harness.Run(PROP, "translation_validation", tier, seed)
  rng = np.random.RandomState(seed)
  cfgs = qlattice.lattice(tier, seed)
  for i, (cls, kw) in enumerate(cfgs):
    phases = (0, 1) if qlattice.stochastic(cls, kw) else (0,)
    try:
      q = qz.make(cls, kw)
      try:
        s = str(q)
      except Exception as e:  # pylint: disable=broad-except
        r.concrete_checks += 1
        r.violation(dict(clause="str_raises", cls=cls, error=type(e).__name__), dict(cfg=qz.cfg_str(cls, kw), error=repr(e)[:200]), dict(clause="str_raises", cls=cls, kw=kw))
        continue
      r.samples.append(dict(cfg=qz.cfg_str(cls, kw), text=s)) if len(r.samples) < 10 else None
      c09.one(r, cls, kw, i, rng, phases, routes=("str",))
    except Exception as e:  # pylint: disable=broad-except
      import traceback
      traceback.print_exc()
      r.inconclusive_("harness error on %s: %r" % (qz.cfg_str(cls, kw), e))
  c09_finish(r)
  text_to_args(r)
  try:
    validate_builtin_contracts(r, rng)
    symbolic_getarg(r)
  except Exception as e:  # pylint: disable=broad-except
    import traceback
    traceback.print_exc()
    r.inconclusive_("symbolic GetArg part failed: %r" % (e,))
  obls = [o for o in r.obls if not o.twin]
  r.aux.update(programs=len(r.configs), equivalences_structural=sum(1 for o in obls if o.result is not None and o.result.solver == "hash-consing"),
               disagreements_checked=sum(1 for o in obls if o.result is not None and o.result.verdict == "sat"))
  r.functions = ["__str__ of all 14 registered quantizer classes", "get_quantizer (string branch) -> safe_eval.safe_eval/GetParams/GetArg",
                 "every quantizer's __call__ (original and re-parsed object are traced)"]
  r.bounds = ["str(q) direction: %d configurations of the C09 lattice; functional equality of q and get_quantizer(str(q)) for all inputs (as C09)" % len(cfgs),
              "text -> arguments direction, per argument token: safe_eval.GetArg is executed on a z3 string (all paths): for every token of length <= %d "
              "over the alphabet %r in the literal classes bool / int / float / None / quoted string the result is the Python literal's value "
              "(int()/float() are acceptance contracts validated against the builtins)" % (MAXLEN, ALPHABET),
              "text -> arguments direction, whole argument lists: NOT decided by a solver - GetParams splits the text inside pyparsing's regex engine; a "
              "finite generated list of argument texts is compared with Python's own evaluation (auxiliary enumeration); number lists use the "
              "library's own space-separated syntax and are only enumerated",
              "'never executes arbitrary code' is not a checked claim"]
  r.assumptions = ["K.learning_phase environment stub for stochastic configurations"]
  return r.finish("For every configuration the printed form is parsed back through the real get_quantizer/safe_eval; the original and the "
                  "re-parsed quantizer are traced on one symbolic tensor and proved equal for every input by term identity (or a replayed "
                  "distinguishing input is reported).")


def c09_finish(r):
  """pooled exact miters for the non-structural cases (same triage as C09)"""
  r.discharge()
  for o in r.obls:
    if getattr(o, "confirm", None) is None or o.result is None:
      continue
    if o.result.verdict == "unsat":
      continue
    if o.result.verdict == "sat":
      w = {n: float(ir.bits_f32(o.result.model.get(n + "_b", 0))) for n in o.inputs}
      qz.set_learning_phase(o.meta.get("phase", 0))
      ok, detail = o.confirm(w)
      if ok:
        o.sig["culprit"] = c09.culprit(o.meta["cls"], o.meta["kw"], o.meta["route"], o.meta.get("phase", 0), detail.get("x"))
        r.violation(o.sig, dict(cfg=o.cfg, how="fp-miter", **detail), dict(clause="function", cls=o.meta["cls"], kw=o.meta["kw"], route=o.meta["route"],
                                                                        phase=o.meta.get("phase", 0), x=detail.get("x")))
      else:
        r.inconclusive_("%s %s: miter counterexample does not reproduce: %s" % (o.cfg, o.meta["route"], str(detail)[:300]))
    else:
      r.inconclusive_("%s %s: solver answered %s" % (o.cfg, o.meta["route"], o.result.verdict))
  qz.set_learning_phase(0)
