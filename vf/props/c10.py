"""C10 - quantizer strings parse as the equivalent Python call and str(q) re-parses to q."""
import itertools
import numpy as np

from .. import harness, ir, qz, qlattice
from . import c09

PROP = "C10"


class Rec(object):
  def __call__(self, *a, **k):
    return list(a), dict(k)


def literal_cases():
  """(text of the argument list, expected args, expected kwargs).  Python evaluates the text where it is Python;
  the space-separated number list is the library's own list syntax and its expectation is built here."""
  ints = ["0", "4", "-3", "+7", "12"]
  floats = ["0.5", "-1.25", "1e-3", "2.5E2", "-3e+2", ".5", "6."]
  consts = ["True", "False", "None"]
  strs = ["'auto'", '"auto_po2"', "'floor'", "'True'", "'3'", "'a_b'"]
  atoms = ints + floats + consts + strs
  cases = []
  rec = Rec()
  for a in atoms:
    cases.append("(%s)" % a)
    cases.append("(k=%s)" % a)
    cases.append("(4, %s)" % a)
    cases.append("(4,%s,name=%s)" % (a, a))
  for a, b2, c in itertools.product(ints[:3], floats[:3], consts):
    cases.append("(%s, %s, flag=%s)" % (a, b2, c))
    cases.append("(%s,alpha=%s,other=%s)" % (a, strs[0], b2))
  cases += ["()", "(4, 0, 1)", "( 4 ,0 , 1 )", "(bits=4, integer=0)", "(8,alpha='auto',use_stochastic_rounding=True)"]
  out = []
  for s in cases:
    a, k = eval("rec" + s, {"rec": rec})      # pylint: disable=eval-used  (the harness's own generated text)
    out.append((s, a, k))
  out.append(("(scale_axis=[0 1])", [], {"scale_axis": [0, 1]}))
  out.append(("(1, elements_per_scale=[2 4], k=1.5)", [1], {"elements_per_scale": [2, 4], "k": 1.5}))
  return out


def same_value(a, b):
  if type(a) is not type(b):
    return False
  if isinstance(a, list):
    return len(a) == len(b) and all(same_value(x, y) for x, y in zip(a, b))
  return a == b


def text_to_args(run):
  import importlib
  safe_eval = importlib.import_module("qkeras.safe_eval")
  n = 0
  for s, ea, ek in literal_cases():
    n += 1
    try:
      a, k = safe_eval.GetParams(s)
    except Exception as e:  # pylint: disable=broad-except
      run.violation(dict(clause="text_to_args", kind="raises"), dict(text=s, error=repr(e)[:200]), dict(clause="text_to_args", text=s))
      continue
    ok = len(a) == len(ea) and all(same_value(x, y) for x, y in zip(a, ea)) and set(k) == set(ek) and all(same_value(k[n_], ek[n_]) for n_ in ek)
    if not ok:
      run.violation(dict(clause="text_to_args", kind="differs"), dict(text=s, got=[a, k], expected=[ea, ek]), dict(clause="text_to_args", text=s))
  for s in ["(bits=4, 1)", "(alpha='auto', 4, 1)", "(4, k=1, 2)"]:
    n += 1
    try:
      safe_eval.GetParams(s)
      run.violation(dict(clause="text_to_args", kind="order_not_rejected"), dict(text=s), dict(clause="text_to_args_order", text=s))
    except SyntaxError:
      pass
  run.concrete_checks += n
  run.aux["text_to_args_cases_enumerated"] = n


def replay_concrete(rep):
  import importlib
  safe_eval = importlib.import_module("qkeras.safe_eval")
  if rep["clause"] == "text_to_args_order":
    try:
      safe_eval.GetParams(rep["text"])
      return True, {}
    except SyntaxError:
      return False, {}
  if rep["clause"] == "text_to_args":
    for s, ea, ek in literal_cases():
      if s == rep["text"]:
        try:
          a, k = safe_eval.GetParams(s)
        except Exception as e:  # pylint: disable=broad-except
          return True, dict(error=repr(e))
        ok = len(a) == len(ea) and all(same_value(x, y) for x, y in zip(a, ea)) and set(k) == set(ek) and all(same_value(k[n_], ek[n_]) for n_ in ek)
        return not ok, dict(got=[a, k], expected=[ea, ek])
    return False, {}
  if rep["clause"] == "str_raises":
    try:
      str(qz.make(rep["cls"], rep["kw"]))
      return False, {}
    except Exception as e:  # pylint: disable=broad-except
      return True, dict(error=repr(e)[:200])
  return c09.replay_concrete(rep)


def replay(body):
  ok, detail = replay_concrete(body["replay"])
  print("replay:", detail, "-> violation reproduced" if ok else "-> not reproduced")
  return ok


def run(tier, seed):
  r = harness.Run(PROP, "translation_validation", tier, seed)
  rng = np.random.RandomState(seed)
  cfgs = qlattice.lattice(tier, seed)
  for i, (cls, kw) in enumerate(cfgs):
    phases = (0, 1) if qlattice.stochastic(cls, kw) else (0,)
    try:
      q = qz.make(cls, kw)
      try:
        s = str(q)
      except Exception as e:  # pylint: disable=broad-except
        r.concrete_checks += 1
        r.violation(dict(clause="str_raises", cls=cls, error=type(e).__name__), dict(cfg=qz.cfg_str(cls, kw), error=repr(e)[:200]), dict(clause="str_raises", cls=cls, kw=kw))
        continue
      r.samples.append(dict(cfg=qz.cfg_str(cls, kw), text=s)) if len(r.samples) < 10 else None
      c09.one(r, cls, kw, i, rng, phases, routes=("str",))
    except Exception as e:  # pylint: disable=broad-except
      import traceback
      traceback.print_exc()
      r.inconclusive_("harness error on %s: %r" % (qz.cfg_str(cls, kw), e))
  c09_finish(r)
  text_to_args(r)
  obls = [o for o in r.obls if not o.twin]
  r.aux.update(programs=len(r.configs), equivalences_structural=sum(1 for o in obls if o.result is not None and o.result.solver == "hash-consing"),
               disagreements_checked=sum(1 for o in obls if o.result is not None and o.result.verdict == "sat"))
  r.functions = ["__str__ of all 14 registered quantizer classes", "get_quantizer (string branch) -> safe_eval.safe_eval/GetParams/GetArg",
                 "every quantizer's __call__ (original and re-parsed object are traced)"]
  r.bounds = ["str(q) direction: %d configurations of the C09 lattice; functional equality of q and get_quantizer(str(q)) for all inputs (as C09)" % len(cfgs),
              "text -> arguments direction: NOT decided by a solver.  GetParams runs inside pyparsing's regex engine and CrossHair 0.0.110 aborts on "
              "safe_eval.Str; a finite generated list of argument texts is compared with Python's own evaluation (auxiliary enumeration)",
              "'never executes arbitrary code' is not a checked claim"]
  r.assumptions = ["K.learning_phase environment stub for stochastic configurations"]
  return r.finish("For every configuration the printed form is parsed back through the real get_quantizer/safe_eval; the original and the "
                  "re-parsed quantizer are traced on one symbolic tensor and proved equal for every input by term identity (or a replayed "
                  "distinguishing input is reported).")


def c09_finish(r):
  """pooled exact miters for the non-structural cases (same triage as C09)"""
  r.discharge()
  for o in r.obls:
    if getattr(o, "confirm", None) is None or o.result is None:
      continue
    if o.result.verdict == "unsat":
      continue
    if o.result.verdict == "sat":
      w = {n: float(ir.bits_f32(o.result.model.get(n + "_b", 0))) for n in o.inputs}
      qz.set_learning_phase(o.meta.get("phase", 0))
      ok, detail = o.confirm(w)
      if ok:
        o.sig["culprit"] = c09.culprit(o.meta["cls"], o.meta["kw"], o.meta["route"], o.meta.get("phase", 0), detail.get("x"))
        r.violation(o.sig, dict(cfg=o.cfg, how="fp-miter", **detail), dict(clause="function", cls=o.meta["cls"], kw=o.meta["kw"], route=o.meta["route"],
                                                                        phase=o.meta.get("phase", 0), x=detail.get("x")))
      else:
        r.inconclusive_("%s %s: miter counterexample does not reproduce: %s" % (o.cfg, o.meta["route"], str(detail)[:300]))
    else:
      r.inconclusive_("%s %s: solver answered %s" % (o.cfg, o.meta["route"], o.result.verdict))
  qz.set_learning_phase(0)
