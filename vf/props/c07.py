"""C07 - qnoise_factor interpolates exactly between unquantized and quantized outputs; scheduler."""
from fractions import Fraction
import numpy as np
import z3

from .. import harness, ir, qz, lattice, tfg, pysym
from ..pysym import SymInt, SymReal, lift
from . import c01, c02, c03

PROP = "C07"

QCONFIGS = [
    ("quantized_bits", dict(bits=4, integer=1)),
    ("quantized_bits", dict(bits=6, integer=0, symmetric=1, use_ste=False)),
    ("quantized_bits", dict(bits=3, integer=2, keep_negative=False)),
    ("quantized_relu", dict(bits=4, integer=1)),
    ("quantized_relu", dict(bits=4, integer=2, negative_slope=0.25, use_ste=False)),
    ("quantized_relu", dict(bits=6, integer=2, is_quantized_clip=False)),
    ("quantized_linear", dict(bits=4, integer=1)),
    ("quantized_linear", dict(bits=6, integer=0, symmetric=0)),
    ("quantized_po2", dict(bits=4)),
    ("quantized_po2", dict(bits=5, max_value=4.0, use_ste=False)),
    ("quantized_relu_po2", dict(bits=4)),
    ("quantized_relu_po2", dict(bits=4, negative_slope=0.25, use_ste=False)),
]
QCONFIGS_THOROUGH = [
    ("quantized_bits", dict(bits=8, integer=3)),
    ("quantized_bits", dict(bits=2, integer=0, symmetric=1)),
    ("quantized_bits", dict(bits=8, integer=2, use_ste=False)),
    ("quantized_relu", dict(bits=8, integer=3)),
    ("quantized_relu", dict(bits=6, integer=1, negative_slope=0.125)),
    ("quantized_relu", dict(bits=3, integer=0, use_ste=False)),
    ("quantized_relu", dict(bits=4, integer=2, is_quantized_clip=False, relu_upper_bound=2.0)),
    ("quantized_linear", dict(bits=8, integer=3, keep_negative=False)),
    ("quantized_linear", dict(bits=3, integer=1, symmetric=0)),
    ("quantized_po2", dict(bits=6)),
    ("quantized_po2", dict(bits=3, max_value=1.0)),
    ("quantized_po2", dict(bits=4, log2_rounding="floor")),
    ("quantized_relu_po2", dict(bits=6, max_value=4.0)),
    ("quantized_relu_po2", dict(bits=3, negative_slope=0.5)),
]
# every grid value is a float32 number: a tf.Variable(float32) cannot hold the double 0.3, so "the same f in both storages"
# is only meaningful for f that float32 represents (a Python-float 0.3 vs float32(0.3) are two different factors)
FGRID = [0.0, 0.125, 0.25, 0.5, 0.75, 0.875, 1.0, float(np.float32(0.3)), float(np.float32(0.9))]


def surrogate(b, cls, kw, x):
  c = b.const
  if cls in ("quantized_bits", "quantized_linear", "quantized_po2"):
    return x
  if cls == "quantized_relu":
    slope = kw.get("negative_slope", 0.0)
    u = b.ite(b.cmp("gt", x, c(0.0)), x, b.mul(x, c(slope))) if slope else b.fmax(x, c(0.0))
    ks = __import__("vf.props.c06", fromlist=["kinks"]).kinks(cls, kw)
    if len(ks) > 1:
      u = b.ite(b.cmp("leq", x, c(ks[-1])), u, c(ks[-1]))
    return u
  if cls == "quantized_relu_po2":
    slope = kw.get("negative_slope", 0) or 0.0
    u = b.ite(b.cmp("gt", x, c(0.0)), x, b.mul(x, c(slope))) if slope else b.fmax(x, c(0.0))
    if kw.get("max_value") is not None:
      u = b.ite(b.cmp("leq", x, c(float(kw["max_value"]))), u, c(float(kw["max_value"])))
    return u
  return None


def exact_domain(cls, kw, x):
  """region in which the fully quantized value is exact (see C01 / C03)"""
  if cls in ("quantized_po2", "quantized_relu_po2"):
    fmt = c03.po2_format(cls, kw)
    big = 2.0 ** min(127, 24 + fmt["kmax"])
    dom = [qz.finite_normal(x), qz.abs_lt(x, big)]
    band_lo = 2.0 ** (24 + fmt["min_exp"]) if 24 + fmt["min_exp"] > -126 else 0.0
    if 0 < band_lo < float(c03.EPS):
      dom.append(ir.L("(not %s)" % c03.in_band_smt(fmt, band_lo), x))
    return dom
  fmt = lattice.fixed_format(cls, kw)
  return c01.domain(x, fmt)


def build_var_quantizer(cls, kw, shape=()):
  import tensorflow as tf
  k2 = dict(kw)
  k2["use_variables"] = True
  q = qz.make(cls, k2)
  q(tf.constant(np.full(shape, 0.5, dtype=np.float32)))     # build: creates the tf.Variable
  return q


def one_quantizer(run, cls, kw, rng, idx):
  import tensorflow as tf
  cfg = qz.cfg_str(cls, kw)
  ste = kw.get("use_ste", True)
  qv = build_var_quantizer(cls, kw)
  var = qv.qnoise_factor
  if not isinstance(var, tf.Variable):
    run.violation(dict(clause="variable_backed", cls=cls), dict(cfg=cfg, got=repr(type(var))), dict(clause="variable_backed", cls=cls, kw=kw))
    return
  b = ir.Builder()
  fsym = np.empty((), dtype=object)
  fsym[()] = b.input("f")
  # products with the symbolic factor (f and 1-f) are opaque: see ir.Builder.opaque_mul
  b.opaque_factors = {fsym[()].nid, b.sub(b.const(1.0), fsym[()]).nid}
  tr = qz.Traced(qv, (), builder=b, var_syms={id(var): fsym})
  x, o, f = tr.xs()[0], tr.outs()[0], fsym[()]
  # the same quantizer class with the constructor constant 1.0 (fully quantized) in the same builder
  q1 = qz.make(cls, dict(kw, qnoise_factor=1.0))
  tr1 = qz.Traced(q1, (), builder=b)
  o1 = tr1.outs()[0]
  u = surrogate(b, cls, kw, x)
  run.configs.append(cfg)
  # translator validation, including the variable read
  pts = qz.interesting_points([], rng, n_random=10 if run.quick() else 24, scale=3.0)
  bad = []
  for v in pts:
    for fv in (0.0, 0.5, 1.0, float(rng.rand())):
      var.assign(fv)
      real = np.float32(np.asarray(qv(tf.constant(v, tf.float32))).reshape(-1)[0])
      enc = tfg.concrete_env(b, [o], {"x": v, "f": np.float32(fv)})[o.nid]
      if not qz.evalr.same(enc, real):
        bad.append((float(v), fv, float(enc), float(real)))
  run.validated_points += 4 * len(pts)
  run.validated_graphs += 1
  if bad:
    run.inconclusive_("translator mismatch (variable-backed qnoise) for %s: %s" % (cfg, bad[:3]))
    return
  dom = exact_domain(cls, kw, x)
  fdom = [qz.finite_normal(f), ir.L("(and (fp.leq %s {0}) (fp.leq {0} %s))" % (ir.PZ, ir.fp_lit(1.0)), f)]
  meta = dict(cls=cls, kw=kw)
  eqz = lambda a, c: ir.L("(not (or (fp.eq {0} {1}) (and (fp.isNaN {0}) (fp.isNaN {1}))))", a, c)
  # general f: the documented mixing expression of this mode, built from the surrogate and the quantized output
  if ste:
    mixn = b.add(u, b.mul(f, b.add(b.neg(u), o1)))
  else:
    mixn = b.add(b.mul(b.sub(b.const(1.0), f), u), b.mul(f, o1))
  b.close_stubs()      # after *all* terms exist: congruence between every pair of opaque products
  # inputs whose scaled value overflows float32 make the rounding residual NaN: outside the claim
  nofl = [qz.finite_normal(x), qz.abs_lt(x, 2.0 ** 96)]
  # f = 0 -> surrogate (for every finite x, not only the exact domain)
  run.add("%03d_f0" % idx, ir.build_smt(b, nofl + [ir.L("(fp.isZero {0})", f), eqz(o, u)]), meta=dict(meta, clause="f0"))
  # f = 1 -> the fully quantized output of the constant-factor quantizer
  run.add("%03d_f1" % idx, ir.build_smt(b, nofl + [ir.L("(fp.eq {0} %s)" % ir.fp_lit(1.0), f), eqz(o, o1)]), meta=dict(meta, clause="f1"))
  run.add("%03d_mix" % idx, ir.build_smt(b, dom + fdom + [eqz(o, mixn)]), meta=dict(meta, clause="mix"), timeout=1200)
  run.add_twin("%03d_mix" % idx, ir.build_smt(b, dom + fdom + [ir.L("(= {0} {0})", o), ir.L("(= {0} {0})", o1)]), meta=meta)
  # between the two end points (expensive: floating-point add monotonicity; thorough tier, three configurations)
  if ste and not run.quick() and (cls, kw) in (QCONFIGS[0], QCONFIGS[3], QCONFIGS[8]):
    between = ir.L("(not (and (fp.leq (fp.min {1} {2}) {0}) (fp.leq {0} (fp.max {1} {2}))))", o, u, o1)
    run.add("%03d_between" % idx, ir.build_smt(b, dom + fdom + [between]), meta=dict(meta, clause="between"), timeout=1200)
  # constructor constant vs update API vs variable-backed: same function for every f0 of the grid
  for fv in FGRID if not run.quick() else FGRID[:7]:
    qa = qz.make(cls, dict(kw, qnoise_factor=fv))
    qb = qz.make(cls, dict(kw))
    qb.update_qnoise_factor(fv)
    ta = qz.Traced(qa, (), builder=b)
    tb = qz.Traced(qb, (), builder=b)
    fc = np.empty((), dtype=object)
    fc[()] = b.const(np.float32(fv))
    tv = qz.Traced(qv, (), builder=b, var_syms={id(var): fc})
    b.close_stubs()
    oa, ob, ov = ta.outs()[0], tb.outs()[0], tv.outs()[0]
    for name, other in (("ctor_vs_update", ob), ("ctor_vs_variable", ov)):
      m = dict(meta, clause=name, f=fv)
      if oa is other:
        ob_ = harness.solve.Obligation("%s_%03d_%s_%s" % (PROP, idx, name, fv), "(structural) identical terms", meta=dict(m, by="hash-consing"))
        ob_.result = harness.solve.Result("unsat", {}, 0.0, "hash-consing")
        run.obls.append(ob_)
      else:
        run.add("%03d_%s_%s" % (idx, name, str(fv).replace(".", "p")), ir.build_smt(b, [qz.finite_normal(x), eqz(oa, other)]), meta=m)
    # the eager, variable-backed object after assign() really computes the same values (API route executed concretely)
    qv.update_qnoise_factor(fv)
    xs = np.asarray(pts[:12], dtype=np.float32)
    ra = np.asarray(qa(tf.constant(xs))).reshape(-1)
    rv = np.asarray(qv(tf.constant(xs))).reshape(-1)
    run.concrete_checks += len(xs)
    if not all(qz.evalr.same(a_, v_) for a_, v_ in zip(ra, rv)):
      run.violation(dict(clause="update_api_eager", cls=cls), dict(cfg=cfg, f=fv, ctor=ra.tolist(), variable=rv.tolist()),
                    dict(clause="update_api_eager", cls=cls, kw=kw, f=fv, xs=xs.tolist()))


TENSOR_CONFIGS = [("quantized_bits", dict(bits=4, integer=1, alpha="auto"), (2,)), ("quantized_bits", dict(bits=4, integer=2, alpha="auto", use_ste=False), (2,))]


def tensor_quantizer(run, cls, kw, shape, idx):
  """data-dependent scale (alpha='auto'): the quantizer works on a tensor; the end-point clauses f = 0 (the input itself) and
  f = 1 (the constant-factor quantizer) are decided for every element with all elements and f symbolic"""
  import tensorflow as tf
  cfg = qz.cfg_str(cls, kw) + " on %s" % (shape,)
  qv = build_var_quantizer(cls, kw, shape)
  var = qv.qnoise_factor
  b = ir.Builder()
  fsym = np.empty((), dtype=object)
  fsym[()] = b.input("f")
  b.opaque_factors = {fsym[()].nid, b.sub(b.const(1.0), fsym[()]).nid}
  tr = qz.Traced(qv, shape, builder=b, var_syms={id(var): fsym})
  q1 = qz.make(cls, dict(kw, qnoise_factor=1.0))
  tr1 = qz.Traced(q1, shape, builder=b)
  xs, outs, outs1, f = tr.xs(), tr.outs(), tr1.outs(), fsym[()]
  # translator validation including the variable read
  rs = np.random.RandomState(idx)
  bad = []
  for _ in range(6):
    xv = (rs.randn(*shape) * 2).astype(np.float32)
    for fv in (0.0, 0.5, 1.0):
      var.assign(fv)
      real = np.asarray(qv(tf.constant(xv))).reshape(-1)
      env = {n.attr: np.float32(v) for n, v in zip(xs, xv.reshape(-1))}
      env["f"] = np.float32(fv)
      enc = tfg.concrete_env(b, list(outs), env)
      if not all(qz.evalr.same(enc[o.nid], r_) for o, r_ in zip(outs, real)):
        bad.append((xv.tolist(), fv))
  run.validated_points += 18
  run.validated_graphs += 1
  if bad:
    run.inconclusive_("translator mismatch (tensor qnoise) for %s: %s" % (cfg, bad[:2]))
    return
  run.configs.append(cfg)
  b.close_stubs()
  dom = []
  for x in xs:
    dom += [qz.finite_normal(x), qz.abs_lt(x, 2.0 ** 20), ir.L("(fp.geq (fp.abs {0}) %s)" % ir.fp_lit(2.0 ** -20), x)]
  meta = dict(cls=cls, kw=kw, shape=list(shape))
  eqz = lambda a, c: ir.L("(not (or (fp.eq {0} {1}) (and (fp.isNaN {0}) (fp.isNaN {1}))))", a, c)
  gv = [x.attr + "_b" for x in xs]
  for i, (x, o, o1) in enumerate(zip(xs, outs, outs1)):
    run.add("T%02d_f0_e%d" % (idx, i), ir.build_smt(b, dom + [ir.L("(fp.isZero {0})", f), eqz(o, x)], get_values=gv), meta=dict(meta, clause="f0", element=i), timeout=900)
    if o is o1:
      ob_ = harness.solve.Obligation("%s_T%02d_f1_e%d" % (PROP, idx, i), "(structural) identical terms", meta=dict(meta, clause="f1", element=i, by="hash-consing"))
      ob_.result = harness.solve.Result("unsat", {}, 0.0, "hash-consing")
      run.obls.append(ob_)
    else:
      run.add("T%02d_f1_e%d" % (idx, i), ir.build_smt(b, dom + [ir.L("(fp.eq {0} %s)" % ir.fp_lit(1.0), f), eqz(o, o1)], get_values=gv), meta=dict(meta, clause="f1", element=i), timeout=900)
  run.add_twin("T%02d" % idx, ir.build_smt(b, dom + [ir.L("(= {0} {0})", outs[0])]), meta=meta)


def replay_concrete(rep):
  import tensorflow as tf
  cls, kw, clause = rep["cls"], rep["kw"], rep["clause"]
  if clause == "scheduler":
    return replay_scheduler(rep)
  call = lambda q, v: np.float32(np.asarray(q(tf.constant(np.float32(v), tf.float32))).reshape(-1)[0])
  if clause == "update_api_eager":
    qa = qz.make(cls, dict(kw, qnoise_factor=rep["f"]))
    qv = build_var_quantizer(cls, kw)
    qv.update_qnoise_factor(rep["f"])
    xs = np.asarray(rep["xs"], dtype=np.float32)
    ra, rv = np.asarray(qa(tf.constant(xs))).reshape(-1), np.asarray(qv(tf.constant(xs))).reshape(-1)
    return (not all(qz.evalr.same(a_, v_) for a_, v_ in zip(ra, rv))), dict(ctor=ra.tolist(), variable=rv.tolist())
  if rep.get("shape"):
    xs = np.array([ir.bits_f32(b_) for b_ in rep["xs_bits"]], dtype=np.float32).reshape(rep["shape"])
    fv = {"f0": 0.0, "f1": 1.0}[clause]
    qv = build_var_quantizer(cls, kw, tuple(rep["shape"]))
    qv.qnoise_factor.assign(fv)
    out = np.asarray(qv(tf.constant(xs))).reshape(-1)
    want = xs.reshape(-1) if clause == "f0" else np.asarray(qz.make(cls, dict(kw, qnoise_factor=1.0))(tf.constant(xs))).reshape(-1)
    i = rep.get("element", 0)
    return not qz.evalr.same(out[i], want[i]), dict(x=xs.tolist(), f=fv, out=out.tolist(), expected=want.tolist(), cfg=qz.cfg_str(cls, kw), clause=clause)
  x = ir.bits_f32(rep["x_bits"])
  f = ir.bits_f32(rep["f_bits"]) if rep.get("f_bits") is not None else np.float32(rep.get("f", 1.0))
  qv = build_var_quantizer(cls, kw)
  qv.qnoise_factor.assign(float(f))
  out = call(qv, x)
  q1 = qz.make(cls, dict(kw, qnoise_factor=1.0))
  full = call(q1, x)
  b = ir.Builder()
  xn = b.input("x")
  un = surrogate(b, cls, kw, xn)
  u = tfg.concrete_env(b, [un], {"x": x})[un.nid]
  detail = dict(x=float(x), f=float(f), out=float(out), surrogate=float(u), quantized=float(full), cfg=qz.cfg_str(cls, kw), clause=clause)
  F = np.float32
  if clause == "f0":
    return not qz.evalr.same(out, u), detail
  if clause == "f1":
    return not qz.evalr.same(out, full), detail
  if clause == "mix":
    with np.errstate(all="ignore"):
      want = F(u + F(f * F(-u + full))) if kw.get("use_ste", True) else F(F(F(F(1.0) - f) * u) + F(f * full))
    detail["expected"] = float(want)
    return not qz.evalr.same(out, want), detail
  if clause == "between":
    return not (min(u, full) <= out <= max(u, full)), detail
  if clause in ("ctor_vs_update", "ctor_vs_variable"):
    fv = rep["f"]
    qa = qz.make(cls, dict(kw, qnoise_factor=fv))
    if clause == "ctor_vs_update":
      qb = qz.make(cls, dict(kw))
      qb.update_qnoise_factor(fv)
    else:
      qb = build_var_quantizer(cls, kw)
      qb.update_qnoise_factor(fv)
    oa, ob = call(qa, x), call(qb, x)
    detail.update(ctor=float(oa), other=float(ob))
    return not qz.evalr.same(oa, ob), detail
  return False, detail


def replay(body):
  ok, detail = replay_concrete(body["replay"])
  print("replay:", detail, "-> violation reproduced" if ok else "-> not reproduced")
  return ok


def triage(run):
  for o in run.obls:
    r = o.result
    if r is None or r.solver in ("z3", "hash-consing"):
      continue
    if o.twin:
      if r.verdict != "sat":
        run.inconclusive_("reachability twin %s is %s" % (o.oid, r.verdict))
      continue
    if r.verdict == "unsat":
      continue
    if r.verdict == "sat":
      rep = dict(cls=o.meta["cls"], kw=o.meta["kw"], clause=o.meta["clause"], x_bits=r.model.get("x_b"), f_bits=r.model.get("f_b"), f=o.meta.get("f"))
      if o.meta.get("shape"):
        names = sorted(k for k in r.model if k.startswith("x_") and k.endswith("_b"))
        rep.update(shape=o.meta["shape"], xs_bits=[r.model[k] for k in names], element=o.meta.get("element", 0))
      ok, detail = replay_concrete(rep)
      if ok:
        run.violation(dict(cls=o.meta["cls"], clause=o.meta["clause"], use_ste=o.meta["kw"].get("use_ste", True)), detail, rep)
      else:
        run.inconclusive_("counterexample of %s does not reproduce on the real code: %s" % (o.oid, detail))
    else:
      run.inconclusive_("%s: solver answered %s %s" % (o.oid, r.verdict, r.raw[-300:]))


# ---------------------------------------------------------------------------------------------------
# scheduler (engine B)
class PowStub(object):
  """val ** exponent for val in [0,1], exponent > 0: in [0,1], fixes 0 and 1, strictly increasing in val"""

  def __init__(self):
    self.calls = []

  def __call__(self, val, exponent):
    v = lift(val)
    v = z3.ToReal(v) if not z3.is_real(v) else v
    r = z3.FreshReal("pow")
    pysym.fact(z3.And(z3.Implies(v == 0, r == 0), z3.Implies(v == 1, r == 1),
                      z3.Implies(z3.And(v > 0, v < 1), z3.And(r > 0, r < 1)), z3.Implies(v > 1, r > 1)))
    for (w, rw) in self.calls:
      pysym.fact(z3.And(z3.Implies(v < w, r < rw), z3.Implies(v == w, r == rw), z3.Implies(v > w, r > rw)))
    self.calls.append((v, r))
    return SymReal(r)


class NpShim(object):
  def __init__(self, real_np, powstub):
    self._np, self.power = real_np, powstub

  def __getattr__(self, k):
    return getattr(self._np, k)


class RecQuantizer(object):
  """recording stand-in for a quantizer with the knob"""

  def __init__(self, init):
    self.qnoise_factor = init
    self.history = []

  def update_qnoise_factor(self, v):
    self.qnoise_factor = v
    self.history.append(v)


def scheduler(run):
  from qkeras import callbacks as cb
  import numpy as real_np
  st, fi, fr1, fr2 = z3.Ints("start finish freq1 freq2")
  ex = z3.Real("exponent")
  base = [st >= 0, fi >= st, fi <= 10 ** 6, fr1 >= 0, fr2 >= fr1, fr2 <= 2 * 10 ** 6, ex > 0]

  def mk():
    s = cb.QNoiseScheduler.__new__(cb.QNoiseScheduler)
    s.start, s.finish, s.exponent = SymInt(st), SymInt(fi), SymReal(ex)
    s.freq_type, s.use_ste, s.summary_writer, s.qnoise_factor = "step", True, None, None
    return s

  # 1. calculate_qnoise_factor: 0 before start, 1 from finish on, in [0,1], monotone in freq (two symbolic freqs)
  def fn():
    pw = PowStub()
    cb.np = NpShim(real_np, pw)
    try:
      s = mk()
      a = s.calculate_qnoise_factor(SymInt(fr1))
      c = s.calculate_qnoise_factor(SymInt(fr2))
    finally:
      cb.np = real_np
    return a, c

  with pysym.shadow(cb):
    paths, limits = pysym.explore(fn, base=base)
  for pc, why in limits:
    run.inconclusive_("path limit in calculate_qnoise_factor: %s" % why)
  run.aux["scheduler_paths_calculate"] = len(paths)
  R = lambda v: lift(v) if not isinstance(v, float) else pysym.lift(v)
  for pi, (pc, (a, c), facts) in enumerate(paths):
    a, c = R(a), R(c)
    a = z3.ToReal(a) if not z3.is_real(a) else a
    c = z3.ToReal(c) if not z3.is_real(c) else c
    bad = z3.Or(z3.And(fr1 < st, a != 0), z3.And(fr1 >= fi, a != 1), a < 0, a > 1, c < a, z3.And(fr2 >= fi, c != 1), z3.And(fr2 < st, c != 0))
    v, model = harness.z3_query(run, "sched_calc_p%d" % pi, list(pc), [bad], dict(clause="scheduler", part="calculate"))
    if model is not None:
      rep = dict(clause="scheduler", cls="QNoiseScheduler", kw={}, part="calculate", model=model)
      ok, detail = replay_scheduler(rep)
      if ok:
        run.violation(dict(clause="scheduler", part="calculate"), detail, rep)
      else:
        run.inconclusive_("scheduler counterexample does not reproduce: %s" % detail)
  # 2. one inductive step of update_qnoise_factor from an arbitrary reachable state, both hook routes
  ni, init, uf, g = z3.Ints("num_iters initial update_freq last_update")
  base2 = [st >= 0, fi >= st, fi <= 10 ** 6, ex > 0, ni >= 0, ni <= 10 ** 6, init >= 0, init <= 10 ** 6, uf >= 1, uf <= 8, g >= 0, g <= init + ni]
  for freq_type, hook in (("step", "on_train_batch_begin"), ("epoch", "on_epoch_begin"), ("step", "on_epoch_begin"), ("epoch", "on_train_batch_begin")):
    def fn2():
      pw = PowStub()
      cb.np = NpShim(real_np, pw)
      try:
        s = mk()
        s.freq_type = freq_type
        s.update_freq, s.initial_step_or_epoch, s.num_iters = SymInt(uf), SymInt(init), SymInt(ni)
        # invariant: every quantizer holds calculate(g) for some earlier update step g (or the initial 0.0)
        old = s.calculate_qnoise_factor(SymInt(g))
        qs = [RecQuantizer(old), RecQuantizer(old)]
        s.quantizers = qs
        getattr(s, hook)(0)
        want = s.calculate_qnoise_factor(SymInt(init) + SymInt(ni))
      finally:
        cb.np = real_np
      return dict(old=old, new=[q.qnoise_factor for q in qs], hist=[list(q.history) for q in qs], num_iters=s.num_iters, want=want, cbf=s.qnoise_factor)

    with pysym.shadow(cb):
      paths, limits = pysym.explore(fn2, base=base2, max_paths=512)
    for pc, why in limits:
      run.inconclusive_("path limit in update_qnoise_factor: %s" % why)
    run.aux["scheduler_paths_%s_%s" % (freq_type, hook)] = len(paths)
    active = (freq_type == "step") == (hook == "on_train_batch_begin")
    for pi, (pc, res, facts) in enumerate(paths):
      toR = lambda v: (z3.ToReal(R(v)) if not z3.is_real(R(v)) else R(v))
      old, want = toR(res["old"]), toR(res["want"])
      news = [toR(v) for v in res["new"]]
      nn = lift(res["num_iters"])
      freq = init + ni
      conds = []
      for nv, hist in zip(news, res["hist"]):
        if not active:
          conds += [nv != old]
          continue
        upd = (freq % uf) == 0
        conds += [z3.And(upd, nv != want), z3.And(z3.Not(upd), nv != old), nv < old, nv < 0, nv > 1, z3.And(upd, freq >= fi, nv != 1), z3.And(upd, freq < st, nv != 0)]
        conds += [z3.BoolVal(len(hist) > 1)]
      conds += [nn != (ni + 1 if active else ni)]
      if len(news) == 2:
        conds.append(news[0] != news[1])          # every quantizer of the list receives the same factor
      v, model = harness.z3_query(run, "sched_step_%s_%s_p%d" % (freq_type, hook, pi), list(pc), [z3.Or(*conds)],
                                  dict(clause="scheduler", part="step", freq_type=freq_type, hook=hook))
      if model is not None:
        rep = dict(clause="scheduler", cls="QNoiseScheduler", kw={}, part="step", freq_type=freq_type, hook=hook, model=model)
        ok, detail = replay_scheduler(rep)
        if ok:
          run.violation(dict(clause="scheduler", part="step", hook=hook, freq_type=freq_type), detail, rep)
        else:
          run.inconclusive_("scheduler counterexample does not reproduce: %s" % detail)
  # 3a. get_quantizers on stand-in layers whose quantizers hold a *symbolic* current factor: every quantizer that has the knob is
  #     returned whatever value the knob currently holds (0 included), quantizers without the knob and None entries are not
  fq = [z3.Real("held_factor_%d" % i) for i in range(3)]
  base3 = [z3.And(v >= 0, v <= 1) for v in fq]

  class _Q(object):
    pass

  def stand_in_model():
    qs = []
    for v in fq:
      q_ = _Q()
      q_.qnoise_factor = SymReal(v)
      qs.append(q_)
    plain = _Q()                                   # a quantizer without the knob
    l1, l2, l3 = _Q(), _Q(), _Q()
    l1.quantizers = [qs[0], None, plain]
    l2.quantizer = qs[1]
    l3.quantizers = [qs[2]]
    l3.quantizer = None
    m_ = _Q()
    m_.layers = [l1, l2, l3, _Q()]
    return m_, qs

  def fn3():
    m_, qs = stand_in_model()
    s_ = cb.QNoiseScheduler(0, 4)
    got = s_.get_quantizers(m_)
    return [any(g is q_ for g in got) for q_ in qs], len(got)
  with pysym.shadow(cb):
    paths3, limits3 = pysym.explore(fn3, base=base3)
  for pc, why in limits3:
    run.inconclusive_("path limit in get_quantizers: %s" % why)
  for pi, (pc, (present, n_got), facts) in enumerate(paths3):
    bad = z3.BoolVal(not (all(present) and n_got == 3))
    v, mdl = harness.z3_query(run, "sched_get_quantizers_p%d" % pi, list(pc), [bad], dict(clause="scheduler", part="get_quantizers_symbolic"))
    if mdl is not None:
      # replay on real quantizer objects holding the solver's factors
      from qkeras import quantized_bits
      import tensorflow.keras as keras
      from fractions import Fraction
      vals = [float(Fraction(*mdl["held_factor_%d" % i])) if isinstance(mdl.get("held_factor_%d" % i), list) else float(mdl.get("held_factor_%d" % i, 1.0)) for i in range(3)]
      rq = [quantized_bits(4, 0, 1, qnoise_factor=v_) for v_ in vals]
      l1, l2, l3 = _Q(), _Q(), _Q()
      l1.quantizers, l2.quantizer, l3.quantizers = [rq[0], None], rq[1], [rq[2]]
      mm = _Q()
      mm.layers = [l1, l2, l3]
      got = cb.QNoiseScheduler(0, 4).get_quantizers(mm)
      if len(got) != 3:
        run.violation(dict(clause="scheduler", part="get_quantizers"), dict(held_factors=vals, returned=len(got), expected=3),
                      dict(clause="scheduler", cls="", kw={}, part="get_quantizers"))
      else:
        run.inconclusive_("get_quantizers counterexample does not reproduce on real quantizers: %s" % vals)
  # 3. get_quantizers on real layers (auxiliary, concrete): every quantizer with the knob is returned
  try:
    import tensorflow as tf
    from qkeras import QDense, QActivation, QConv2D
    import tensorflow.keras as keras
    inp = keras.Input((4, 4, 2))
    y = QConv2D(2, 2, kernel_quantizer="quantized_bits(4,0,1)", bias_quantizer="quantized_po2(4)")(inp)
    y = QActivation("quantized_relu(4,1)")(y)
    y = keras.layers.Flatten()(y)
    y = QDense(3, kernel_quantizer="ternary()", bias_quantizer="quantized_bits(4)")(y)
    model = keras.Model(inp, y)
    s = cb.QNoiseScheduler(0, 4)
    got = s.get_quantizers(model)
    want = []
    for l in model.layers:
      cands = list(l.get_quantizers()) if hasattr(l, "get_quantizers") else []
      if getattr(l, "quantizer", None) is not None and all(l.quantizer is not c_ for c_ in cands):
        cands.append(l.quantizer)
      for qq in cands:
        if hasattr(qq, "qnoise_factor"):
          want.append(qq)
    run.concrete_checks += 1
    run.aux["get_quantizers_concrete"] = dict(found=len(got), expected=len(want))
    if sorted(id(a) for a in got) != sorted(id(a) for a in want):
      run.violation(dict(clause="get_quantizers"), dict(found=[str(a) for a in got], expected=[str(a) for a in want]), dict(clause="scheduler", cls="", kw={}, part="get_quantizers"))
  except Exception as e:  # pylint: disable=broad-except
    run.aux["get_quantizers_concrete"] = "not run: %r" % (e,)


def replay_scheduler(rep):
  from qkeras import callbacks as cb
  m = rep.get("model", {})
  g = lambda k, d=0: m.get(k, d)
  exv = m.get("exponent", [3, 1])
  exponent = exv[0] / exv[1] if isinstance(exv, list) else float(exv)
  if rep.get("part") == "get_quantizers":
    return True, {}
  if rep["part"] == "calculate":
    s = cb.QNoiseScheduler(g("start"), g("finish"), exponent=exponent)
    a, c = s.calculate_qnoise_factor(g("freq1")), s.calculate_qnoise_factor(g("freq2"))
    detail = dict(start=g("start"), finish=g("finish"), exponent=exponent, freq1=g("freq1"), freq2=g("freq2"), f1=float(a), f2=float(c))
    bad = (g("freq1") < g("start") and a != 0) or (g("freq1") >= g("finish") and a != 1) or not (0 <= a <= 1) or c < a
    return bool(bad), detail
  s = cb.QNoiseScheduler(g("start"), g("finish"), freq_type=rep["freq_type"], update_freq=g("update_freq", 1),
                         initial_step_or_epoch=g("initial"), exponent=exponent)
  s.num_iters = np.array(g("num_iters"), dtype="int64")
  old = s.calculate_qnoise_factor(g("last_update"))
  qs = [RecQuantizer(old), RecQuantizer(old)]
  s.quantizers = qs
  getattr(s, rep["hook"])(0)
  freq = g("initial") + g("num_iters")
  want = s.calculate_qnoise_factor(freq)
  active = (rep["freq_type"] == "step") == (rep["hook"] == "on_train_batch_begin")
  upd = active and freq % g("update_freq", 1) == 0
  news = [q.qnoise_factor for q in qs]
  detail = dict(model=m, old=float(old), new=[float(v) for v in news], expected=float(want if upd else old), num_iters=int(s.num_iters))
  bad = any((v != (want if upd else old)) or v < old for v in news) or int(s.num_iters) != g("num_iters") + (1 if active else 0)
  return bool(bad), detail


def run(tier, seed):
  r = harness.Run(PROP, "model_checking", tier, seed)
  rng = np.random.RandomState(seed)
  cfgs = QCONFIGS + QCONFIGS_THOROUGH if tier == "thorough" else [QCONFIGS[i] for i in (0, 1, 3, 4, 6, 8, 9, 11)]
  for i, (cls, kw) in enumerate(cfgs):
    try:
      one_quantizer(r, cls, kw, rng, i)
    except tfg.Unsupported as e:
      r.inconclusive_("cannot translate %s: %s" % (qz.cfg_str(cls, kw), e))
  for i, (cls, kw, shape) in enumerate(TENSOR_CONFIGS if tier == "thorough" else TENSOR_CONFIGS[:1]):
    try:
      tensor_quantizer(r, cls, kw, shape, i)
    except tfg.Unsupported as e:
      r.inconclusive_("cannot translate %s: %s" % (qz.cfg_str(cls, kw), e))
  r.discharge()
  triage(r)
  try:
    scheduler(r)
  except Exception as e:  # pylint: disable=broad-except
    import traceback
    traceback.print_exc()
    r.inconclusive_("scheduler part failed: %r" % (e,))
  r.functions = ["BaseQuantizer.build/update_qnoise_factor", "qnoise mixing expressions of quantized_bits/relu/linear/po2/relu_po2.__call__",
                 "QNoiseScheduler.calculate_qnoise_factor/update_qnoise_factor/set_qnoise_factor/on_epoch_begin/on_train_batch_begin"]
  r.bounds = ["%d quantizer configurations; x = symbolic float32 in the exactness region of C01/C03, f = symbolic float32 in [0,1]" % len(cfgs),
              "constructor constant vs update API vs variable-backed: f0 on a %d-point grid, equality for all x" % (7 if tier == "quick" else len(FGRID)),
              "data-dependent scale: quantized_bits(alpha='auto') on a two-element tensor, both elements and f symbolic: end-point clauses f=0 "
              "(the input itself) and f=1 (the constant-factor quantizer) per element; the general mixing clause is not decided for it",
              "scheduler: start <= finish <= 10^6, exponent > 0 real, update_freq 1..8, num_iters/initial <= 10^6 - all symbolic; one inductive "
              "step from the invariant 'every quantizer holds calculate(g) for an earlier step g'",
              "get_quantizers(): stand-in layers whose three quantizers hold symbolic current factors in [0,1] (every feasible path: all three are "
              "returned, the knob-less quantizer and None entries are not); additionally executed concretely on one real model (auxiliary)"]
  r.assumptions = ["np.power(v, e) for v in [0,1], e > 0: contract stub (fixes 0 and 1, stays in [0,1], strictly increasing in v)",
                   "platform model / Log / Pow stubs as in C01 and C03"]
  return r.finish("Quantizers are traced in variable-backed mode so that qnoise_factor is a symbolic graph input f; the solver decides for all "
                  "(x,f) that f=0 gives the surrogate, f=1 the fully quantized output, the general case equals the documented mixing "
                  "expression and lies between the end points, and that constructor-constant, update-API and variable-backed objects are "
                  "the same function.  The scheduler's Python code runs on z3-backed integers/reals: factor 0 before start, 1 from finish, "
                  "in [0,1], monotone in the step, and one inductive update step preserves 'never decreases / equals calculate(step)'.")
