"""C12 - model_quantize converts exactly what the configuration names and nothing else."""
import copy
import itertools
import json
import random
import numpy as np

from .. import harness, ir, qz, tfg, equiv, layers

PROP = "C12"

KQ = ["quantized_bits(4,0,1)", "quantized_bits(6,1,1,alpha=1)", "binary(alpha=1)", "ternary(alpha=1)", "quantized_po2(4)"]
BQ = ["quantized_bits(4)", "quantized_po2(4)", "quantized_bits(6,2,1,alpha=1)"]
AQ = ["quantized_relu(4,1)", "quantized_relu(6,2,negative_slope=0.25)", "quantized_relu_po2(4)"]
PQ = ["quantized_bits(8,0,1)", "quantized_bits(6,0,1,alpha=1)"]
QCLASS = {"Dense": "QDense", "Conv1D": "QConv1D", "Conv2D": "QConv2D", "DepthwiseConv2D": "QDepthwiseConv2D",
          "AveragePooling2D": "QAveragePooling2D", "GlobalAveragePooling2D": "QGlobalAveragePooling2D"}
WEIGHT_KEY = {"QDense": "kernel_quantizer", "QConv1D": "kernel_quantizer", "QConv2D": "kernel_quantizer", "QDepthwiseConv2D": "depthwise_quantizer",
              "QAveragePooling2D": "average_quantizer", "QGlobalAveragePooling2D": "average_quantizer"}


def templates():
  keras = layers.K3()
  L = keras.layers

  def seq():
    return keras.Sequential([keras.Input((3,)), L.Dense(4, activation="relu", name="d1"), L.Dense(3, use_bias=False, name="d2"),
                             L.Dense(3, name="d_frozen", trainable=False), L.Activation("softmax", name="sm")])

  def conv():
    i = keras.Input((4, 4, 2))
    y = L.Conv2D(2, 2, activation="relu", name="c")(i)
    y = L.Activation("relu", name="a")(y)
    y = L.ReLU(threshold=0.5, name="r_thr")(y)
    y = L.AveragePooling2D(2, name="p")(y)
    y = L.Flatten(name="f")(y)
    y = L.Dense(3, name="d")(y)
    return keras.Model(i, y)

  def depth():
    i = keras.Input((4, 4, 2))
    y = L.DepthwiseConv2D(2, name="dw")(i)
    y = L.ReLU(name="r")(y)
    y = L.DepthwiseConv2D(1, use_bias=False, name="dw_nobias")(y)
    y = L.ReLU(negative_slope=0.125, name="r_leaky")(y)
    y = L.Conv2D(2, 1, use_bias=False, padding="same", name="c2")(y)
    y = L.GlobalAveragePooling2D(name="g")(y)
    y = L.Dense(2, activation="relu", name="d")(y)
    return keras.Model(i, y)

  def branch():
    i = keras.Input((3,))
    a = L.Dense(2, activation="relu", name="a")(i)
    b_ = L.Dense(2, name="b")(i)
    y = L.Add(name="add")([a, b_])
    y = L.BatchNormalization(name="bn", center=False, scale=False)(y)
    z = L.Concatenate(name="cat")([y, a])
    y = L.Dense(2, name="o")(z)
    return keras.Model(i, y)

  def conv1():
    i = keras.Input((5, 2))
    y = L.Conv1D(2, 2, padding="causal", dilation_rate=2, activation="relu", name="c1")(i)
    y = L.Activation("relu", name="act")(y)
    y = L.Flatten(name="f")(y)
    y = L.Dense(2, name="d")(y)
    y = L.Activation("linear", name="lin")(y)
    return keras.Model(i, y)

  return dict(seq=seq, conv=conv, depth=depth, branch=branch, conv1=conv1)


def dictionaries(model, rr):
  """generated family of quantization dictionaries for this model"""
  names = {l.name: type(l).__name__ for l in model.layers}
  k, b, a, p = (lambda: rr.choice(KQ)), (lambda: rr.choice(BQ)), (lambda: rr.choice(AQ)), (lambda: rr.choice(PQ))
  cls_entries = {"QDense": {"kernel_quantizer": k(), "bias_quantizer": b()}, "QConv2D": {"kernel_quantizer": k(), "bias_quantizer": b()},
                 "QConv1D": {"kernel_quantizer": k(), "bias_quantizer": b()}, "QDepthwiseConv2D": {"depthwise_quantizer": k(), "bias_quantizer": b()},
                 "QAveragePooling2D": {"average_quantizer": p()}, "QGlobalAveragePooling2D": {"average_quantizer": p()},
                 "QActivation": {"relu": a()}}
  ds = [("empty", {}), ("classes", copy.deepcopy(cls_entries))]
  weighted = [n for n, c in names.items() if c in ("Dense", "Conv1D", "Conv2D", "DepthwiseConv2D")]
  if weighted:
    n0 = weighted[0]
    key = WEIGHT_KEY[QCLASS[names[n0]]]
    ds.append(("name_only", {n0: {key: k(), "bias_quantizer": b()}}))
    d = copy.deepcopy(cls_entries)
    d[n0] = {key: "quantized_bits(3,0,1,alpha=1)", "bias_quantizer": "quantized_bits(3,1,1,alpha=1)"}
    ds.append(("name_over_class", d))
    d = copy.deepcopy(cls_entries)
    d[weighted[-1]] = {WEIGHT_KEY[QCLASS[names[weighted[-1]]]]: k()}          # partial: kernel only -> no bias quantizer
    ds.append(("partial_name", d))
    d = {q: {kk: vv for kk, vv in e.items() if kk != "bias_quantizer"} for q, e in cls_entries.items() if q != "QActivation"}
    ds.append(("partial_class", d))
    d = copy.deepcopy(cls_entries)
    for q in ("QDense", "QConv2D", "QConv1D", "QDepthwiseConv2D"):
      d[q]["activation_quantizer"] = a()
    ds.append(("activation_quantizer", d))
  ds.append(("qactivation_string", {"QActivation": a()}))
  # ReLU layers are looked up under "relu" or, with a negative slope, "leakyrelu": a map naming only one of them / both differently
  ds.append(("qactivation_leaky_only", {"QActivation": {"leakyrelu": "quantized_relu(4,1,negative_slope=0.125)"}}))
  ds.append(("qactivation_both", {"QActivation": {"relu": a(), "leakyrelu": "quantized_relu(6,2,negative_slope=0.125)"}}))
  acts = [n for n, c in names.items() if c == "Activation"]
  if acts:
    ds.append(("activation_by_name", {acts[0]: a(), "QDense": {"kernel_quantizer": k()}}))
    # no QActivation entry: Activation layers fall back to QAdaptiveActivation (activation map / plain string / by name over it)
    ds.append(("adaptive_map", {"QAdaptiveActivation": {"relu": "quantized_relu(%d)" % rr.choice([4, 6, 8])}, "QDense": {"kernel_quantizer": k()}}))
    ds.append(("adaptive_string", {"QAdaptiveActivation": "quantized_bits(%d)" % rr.choice([4, 8])}))
    ds.append(("qactivation_over_adaptive", {"QActivation": {"relu": a()}, "QAdaptiveActivation": {"relu": "quantized_relu(6)"}}))
  return ds


def activation_name(cfg):
  a = cfg.get("activation")
  if a is None:
    return None
  if isinstance(a, str):
    return a
  if isinstance(a, dict):
    return a.get("config", a.get("class_name"))
  return getattr(a, "__name__", type(a).__name__)


def quantized_act(name, bits):
  return {"relu": "quantized_relu(%d)" % bits, "tanh": "quantized_tanh(%d)" % bits, "sigmoid": "quantized_sigmoid(%d)" % bits}.get(name)


def expected(layer, qcfg, activation_bits):
  """Harness-side oracle, written from the property's text: returns None (layer must stay as it is) or
  (Q class name, constructor kwargs) for the layer that must replace it."""
  cls = type(layer).__name__
  cfg = layer.get_config()
  entry = qcfg.get(layer.name, None)
  if cls in QCLASS:
    qn = QCLASS[cls]
    if entry is None:
      entry = qcfg.get(qn)
    if not isinstance(entry, dict):
      return None
    wkey = WEIGHT_KEY[qn]
    if entry.get(wkey) is None:
      return None
    kw = dict(cfg)
    kw[wkey] = entry[wkey]
    if qn not in ("QAveragePooling2D", "QGlobalAveragePooling2D"):
      kw["bias_quantizer"] = entry.get("bias_quantizer") if cfg.get("use_bias", True) else None
    act = entry.get("activation_quantizer")
    if act:
      kw["activation"] = act
    else:
      qa = quantized_act(activation_name(cfg), activation_bits)
      if qa is not None:
        kw["activation"] = qa
    return qn, kw
  if cls == "Activation":
    if entry is None:
      entry = qcfg.get("QActivation")
    if entry is None and qcfg.get("QAdaptiveActivation") is not None:
      # the adaptive layer is the backup choice: type name without parameters + total bits
      entry = qcfg["QAdaptiveActivation"]
      an = activation_name(cfg)
      if isinstance(entry, dict):
        if not entry.get(an):
          return None
        q = entry[an]
      else:
        q = entry
      import re
      kw = dict(cfg)
      kw["activation"] = q.split("(")[0]
      kw["total_bits"] = int(re.sub(r"[^0-9]", "", q))
      return "QAdaptiveActivation", kw
    if entry is None:
      return None
    an = activation_name(cfg)
    if isinstance(entry, dict):
      if not entry.get(an):
        return None
      q = entry[an]
    else:
      q = entry
    kw = dict(cfg)
    kw["activation"] = q
    return "QActivation", kw
  if cls == "ReLU":
    if entry is None:
      entry = qcfg.get("QActivation")
    if entry is None:
      return None
    an = "leakyrelu" if (cfg.get("negative_slope") or 0) > 0 else "relu"
    if isinstance(entry, dict):
      if not entry.get(an):
        return None
      q = entry[an]
    else:
      q = entry
    kw = {k: v for k, v in cfg.items() if k not in ("max_value", "negative_slope", "threshold")}
    kw["activation"] = q
    return "QActivation", kw
  return None


QUANT_KEYS = ("kernel_quantizer", "bias_quantizer", "depthwise_quantizer", "pointwise_quantizer", "average_quantizer", "activation", "kernel_range", "bias_range",
              "depthwise_range", "kernel_constraint", "bias_constraint", "depthwise_constraint", "kernel_initializer", "bias_initializer", "depthwise_initializer",
              "max_value", "negative_slope", "threshold", "mask",
              # quantization parameters of QAdaptiveActivation (absent from the source Activation layer)
              "total_bits", "current_step", "symmetric", "quantization_delay", "ema_freeze_delay", "ema_decay", "per_channel", "po2_rounding",
              "relu_neg_slope", "relu_upper_bound")


def nonquant_config(layer):
  # keys whose value is None are treated like absent keys (the Q classes add / drop a few optional entries)
  return {k: v for k, v in layer.get_config().items() if k not in QUANT_KEYS and v is not None}


def one(run, idx, tname, mk, dname, qcfg, bits, transfer):
  import tensorflow as tf
  from qkeras import utils as U
  Q = layers.qk()
  tag = "%s/%s/bits=%d/tw=%s" % (tname, dname, bits, transfer)
  rep = dict(template=tname, dict_name=dname, qcfg=qcfg, bits=bits, transfer=transfer)
  model = mk()
  rs = np.random.RandomState(idx)
  model.set_weights([(rs.randn(*w.shape) * 0.5).astype(np.float32) for w in model.get_weights()])
  before_json, before_w, before_cfg = model.to_json(), [w.copy() for w in model.get_weights()], copy.deepcopy(qcfg)
  run.concrete_checks += 1
  try:
    qm = U.model_quantize(model, qcfg, bits, transfer_weights=transfer)
  except Exception as e:  # pylint: disable=broad-except
    run.violation(dict(clause="raises", template=tname, dict_name=dname, error=type(e).__name__), dict(case=tag, error=repr(e)[:300]), dict(clause="raises", **rep))
    return
  run.configs.append(tag)
  # (iii) caller's objects untouched
  if model.to_json() != before_json or not all(np.array_equal(a, b_) for a, b_ in zip(before_w, model.get_weights())):
    run.violation(dict(clause="source_model_modified"), dict(case=tag), dict(clause="source_model_modified", **rep))
  if qcfg != before_cfg:
    run.violation(dict(clause="dictionary_modified"), dict(case=tag, before=before_cfg, after=qcfg), dict(clause="dictionary_modified", **rep))
  src = [l for l in model.layers]
  dst = [l for l in qm.layers]
  off = 0
  if len(dst) == len(src) + 1 and type(dst[0]).__name__ == "InputLayer":
    off = 1                                       # Sequential models get an explicit InputLayer back
  if len(dst) - off != len(src):
    run.violation(dict(clause="topology"), dict(case=tag, before=[l.name for l in src], after=[l.name for l in dst]), dict(clause="topology", **rep))
    return
  for li, (l, ql) in enumerate(zip(src, dst[off:])):
    exp = expected(l, qcfg, bits)
    want_cls = exp[0] if exp else type(l).__name__
    where = dict(case=tag, layer=l.name, source_class=type(l).__name__, expected_class=want_cls, got_class=type(ql).__name__)
    if ql.name != l.name or type(ql).__name__ != want_cls:
      run.violation(dict(clause="layer_class", source=type(l).__name__, expected=want_cls, got=type(ql).__name__), where, dict(clause="layer_class", layer=l.name, **rep))
      continue
    try:
      s1, s2 = tuple(l.output.shape), tuple(ql.output.shape)
    except Exception:  # pylint: disable=broad-except
      s1 = s2 = None
    if s1 != s2 or nonquant_config(ql) != nonquant_config(l):
      a, b_ = nonquant_config(l), nonquant_config(ql)
      diff = {k: (a.get(k), b_.get(k)) for k in set(a) | set(b_) if a.get(k) != b_.get(k)}
      run.violation(dict(clause="hyperparameters", source=type(l).__name__), dict(where, differing=str(diff)[:300], shapes=[str(s1), str(s2)]),
                    dict(clause="hyperparameters", layer=l.name, **rep))
    if transfer and l.get_weights():
      if not all(np.array_equal(a, b_) for a, b_ in zip(l.get_weights(), ql.get_weights())):
        run.violation(dict(clause="transfer_weights", source=type(l).__name__), where, dict(clause="transfer_weights", layer=l.name, **rep))
    if exp is None:
      # untouched: same class and the same full configuration
      if ql.get_config() != l.get_config():
        run.violation(dict(clause="untouched_layer_changed", source=type(l).__name__), where, dict(clause="untouched_layer_changed", layer=l.name, **rep))
      continue
    # converted: functionally equal, for all inputs and weights, to the Q layer constructed directly from the source
    # hyper-parameters and the configured strings
    try:
      E = getattr(Q, exp[0])(**exp[1])
      sample = tuple(int(d) for d in l.input.shape[1:])
      E.build((None,) + sample)
    except Exception as e:  # pylint: disable=broad-except
      run.inconclusive_("%s: cannot construct the expected layer %s: %r" % (tag, exp[0], e))
      continue
    rq = [str(q) if q is not None else None for q in (ql.get_quantizers() if hasattr(ql, "get_quantizers") else [ql.quantizer])]
    re_ = [str(q) if q is not None else None for q in (E.get_quantizers() if hasattr(E, "get_quantizers") else [E.quantizer])]
    if rq != re_:
      run.violation(dict(clause="carried_quantizers", source=type(l).__name__), dict(where, got=rq, expected=re_), dict(clause="carried_quantizers", layer=l.name, **rep))
      continue
    layer_equiv(run, "%04d_%s" % (idx, l.name), ql, E, sample, dict(case=tag, layer=l.name, cls=exp[0]), dict(layer=l.name, **rep))


def layer_equiv(run, oid, L1, L2, sample, meta, rep):
  import tensorflow as tf
  a1, a2 = layers.weight_attrs(L1), layers.weight_attrs(L2)
  if layers.weight_shapes(L1) != layers.weight_shapes(L2):
    run.violation(dict(clause="weight_shapes", cls=meta["cls"]), meta, dict(clause="weight_shapes", **rep))
    return
  shapes = [(1,) + sample] + layers.weight_shapes(L1)
  names = ["x"] + ["w%d" % i for i in range(len(a1))]
  saved = [(L1, a1, [getattr(L1, n) for n in a1]), (L2, a2, [getattr(L2, n) for n in a2])]

  def restore():
    for lay, at, vals in saved:
      for n, v in zip(at, vals):
        object.__setattr__(lay, n, v)
  f1, f2 = layers.inject_call(L1, a1), layers.inject_call(L2, a2)

  def confirm(w):
    ts = layers.witness_tensors(w, names, shapes)
    r1 = np.asarray(f1(*[tf.constant(t) for t in ts]))
    r2 = np.asarray(f2(*[tf.constant(t) for t in ts]))
    restore()
    return (not np.array_equal(r1, r2)), dict(inputs=[t.tolist() for t in ts], out=r1.tolist(), out_expected=r2.tolist())
  try:
    b = ir.Builder()
    ta = layers.MultiTraced(f1, names, shapes, b)
    tb = layers.MultiTraced(f2, names, shapes, b)
  except tfg.Unsupported as e:
    run.aux.setdefault("untranslated", []).append("%s: %s" % (meta["case"], e))
    return
  finally:
    restore()
  inputs = ta.input_nodes()
  dom = [qz.finite_normal(x) for x in inputs] + [qz.abs_lt(x, 2.0 ** 10) for x in inputs]
  rs = np.random.RandomState(len(oid))
  probes = [{n.attr: float(v) for n, v in zip(inputs, (rs.randn(len(inputs)) * s).astype(np.float32))} for s in (0.3, 1.0, 3.0)]
  v = equiv.decide(run, oid, b, ta.out, tb.out, inputs, dom, confirm, meta, fp=True, probes=probes, timeout=600,
                   relax_kw=dict(lo=2.0 ** -4, hi=4.0, margin=1e-2, timeout_ms=10000))
  restore()
  if v.kind == "different":
    run.violation(dict(clause="converted_layer_function", cls=meta["cls"]), dict(meta, **{k: v.detail[k] for k in ("out", "out_expected") if k in v.detail}),
                  dict(clause="converted_layer_function", inputs=v.detail.get("inputs"), **rep))
  elif v.kind == "inconclusive":
    run.inconclusive_("%s %s: %s" % (meta["case"], meta["layer"], v.how))


def replay_concrete(rep):
  """re-runs the conversion of the recorded instance and re-evaluates the recorded clause"""
  class Collect(object):
    def __init__(self):
      self.v, self.obls, self.aux, self.configs, self.concrete_checks, self.prop = [], [], {}, [], 0, PROP
    def violation(self, sig, detail, rep_):
      self.v.append((sig, detail))
    def inconclusive_(self, why):
      pass
    def quick(self):
      return True
  c = Collect()
  mk = templates()[rep["template"]]
  one(c, 1, rep["template"], mk, rep["dict_name"], rep["qcfg"], rep["bits"], rep["transfer"])
  hits = [v for v in c.v if v[0].get("clause") == rep["clause"]]
  return bool(hits), dict(found=[str(h)[:300] for h in hits[:2]])


def replay(body):
  ok, detail = replay_concrete(body["replay"])
  print("replay:", str(detail)[:800], "-> violation reproduced" if ok else "-> not reproduced")
  return ok


def run(tier, seed):
  r = harness.Run(PROP, "translation_validation", tier, seed)
  rr = random.Random(seed)
  T = templates()
  cases = []
  for tname, mk in T.items():
    m0 = mk()
    for dname, qcfg in dictionaries(m0, rr):
      for bits, tw in itertools.product((4, 6), (False, True)):
        cases.append((tname, mk, dname, qcfg, bits, tw))
  if tier == "quick":
    rr2 = random.Random(seed + 1)
    keep = [c for c in cases if c[4] == 4 and c[5]] [:]
    rr2.shuffle(keep)
    first = {}
    for c in cases:
      first.setdefault((c[0], c[2]), c)
    cases = list(first.values())[:90] + keep[:4]
  for i, (tname, mk, dname, qcfg, bits, tw) in enumerate(cases):
    try:
      one(r, i, tname, mk, dname, copy.deepcopy(qcfg), bits, tw)
    except Exception as e:  # pylint: disable=broad-except
      import traceback
      traceback.print_exc()
      r.inconclusive_("harness error on %s/%s: %r" % (tname, dname, e))
  obls = [o for o in r.obls if not o.twin]
  r.aux.update(programs=len(r.configs), equivalences_structural=sum(1 for o in obls if o.result is not None and o.result.solver == "hash-consing"),
               disagreements_checked=sum(1 for o in obls if o.result is not None and o.result.verdict == "sat"))
  r.samples = [dict(case=c) for c in r.configs[:8]]
  r.functions = ["utils.model_quantize", "utils.get_config (name, then class)", "utils.quantize_activation", "quantized_model_from_json",
                 "call() of every converted layer and of the directly constructed expected layer"]
  r.bounds = ["%d (model, dictionary, activation_bits, transfer_weights) instances from 5 templates (dense stack, conv/pool, depthwise, two-branch "
              "with Add/Concatenate/BatchNormalization, causal Conv1D) and a generated dictionary family (empty, class entries, name entries, name "
              "over class, partial, activation_quantizer, QActivation as string / map / by name, QAdaptiveActivation as map / string / behind QActivation)" % len(r.configs),
              "per converted layer: functional equality with the directly constructed Q layer for all inputs and weight values",
              "SeparableConv, recurrent, transpose, batch-norm and folded conversions cannot be constructed under the pinned Keras 3 and are outside "
              "the claim (SeparableConv conversion raises: recorded finding); prefer_qadaptiveactivation=True and enable_bn_folding are not exercised"]
  r.assumptions = ["the expected layer is built by the harness from the property's text (name entry first, else class entry; no bias quantizer on "
                   "biasless layers; quantized_relu(bits) for plain relu)", "Keras model (de)serialisation runs concretely"]
  # model_quantize on a model with SeparableConv layers (recorded finding if it still raises)
  try:
    keras = layers.K3()
    from qkeras import utils as U
    i = keras.Input((4, 4, 2))
    m = keras.Model(i, keras.layers.SeparableConv2D(2, 1, name="s")(i))
    r.concrete_checks += 1
    try:
      U.model_quantize(m, {"QSeparableConv2D": {"kernel_quantizer": "quantized_bits(4,0,1)", "depthwise_quantizer": "quantized_bits(4,0,1)",
                                                "pointwise_quantizer": "quantized_bits(4,0,1)", "bias_quantizer": "quantized_bits(4)"}}, 4)
    except Exception as e:  # pylint: disable=broad-except
      r.violation(dict(clause="raises", template="separable", dict_name="classes", error=type(e).__name__), dict(error=repr(e)[-300:]),
                  dict(clause="separable"))
  except Exception as e:  # pylint: disable=broad-except
    r.aux["separable_probe"] = repr(e)[:200]
  return r.finish("model_quantize is executed on each enumerated (model, dictionary) instance; layer count, names, classes, output shapes, "
                  "non-quantization hyper-parameters, untouched layers, transferred weights and the caller's model/dictionary are compared "
                  "concretely, and every converted layer is proved functionally equal - for all inputs and all weight values - to the quantized "
                  "layer the harness constructs directly from the source layer and the configured strings (term identity / miter).")
