"""C01 - fixed-point quantizers emit only representable codes of the declared format."""
from fractions import Fraction
import numpy as np

from .. import harness, ir, qz, lattice, tfg

PROP = "C01"


def domain(x, fmt):
  bound = float(Fraction(2) ** 24 * fmt["step"])
  return [qz.finite_normal(x), qz.abs_lt(x, bound)]


def code_violation(o, fmt):
  """SMT text: NOT(out is an in-range multiple of step)"""
  step = float(fmt["step"])
  inv = ir.fp_lit(1.0 / step)
  lo, hi = ir.fp_lit(float(fmt["lo"] * fmt["step"])), ir.fp_lit(float(fmt["hi"] * fmt["step"]))
  good = "(and (fp.eq (fp.roundToIntegral RNE (fp.mul RNE {0} %s)) (fp.mul RNE {0} %s)) (fp.leq %s {0}) (fp.leq {0} %s)" % (inv, inv, lo, hi)
  if fmt.get("only"):
    good += " (or %s)" % " ".join("(fp.eq {0} %s)" % ir.fp_lit(float(c * fmt["step"])) for c in fmt["only"])
  good += ")"
  return ir.L("(not %s)" % good, o)


def exact_check(outv, fmt):
  """rational-arithmetic oracle on a concrete output"""
  f = Fraction(float(outv))
  k = f / fmt["step"]
  if k.denominator != 1:
    return "not a multiple of the step %s: %r" % (fmt["step"], float(outv))
  if not (fmt["lo"] <= k <= fmt["hi"]):
    return "code %s outside [%d,%d]" % (k, fmt["lo"], fmt["hi"])
  if fmt.get("only") and int(k) not in fmt["only"]:
    return "code %s not in %s" % (k, fmt["only"])
  return None


def sig_of(cls, kw, clause, region="all"):
  s = dict(cls=cls, clause=clause, region=region)
  if cls == "quantized_linear" and kw.get("bits") == 1 and kw.get("keep_negative", True):
    s["sign_mode"] = True
  if cls == "quantized_relu" and kw.get("use_sigmoid") and kw.get("negative_slope"):
    s["leaky_sigmoid"] = True
  a = kw.get("alpha")
  s["alpha_kind"] = "none" if a in (None, 1, 1.0) else ("const_ne_1" if not isinstance(a, str) else a)
  return s


def breakpoints(fmt):
  st = float(fmt["step"])
  br = []
  for k in sorted(set([fmt["lo"], fmt["lo"] + 1, -1, 0, 1, 2, fmt["hi"] - 1, fmt["hi"], fmt["hi"] + 1, fmt["lo"] - 1])):
    br += [(k + 0.5) * st, k * st]
  br += [float(2 ** 24 * fmt["step"]), -float(2 ** 24 * fmt["step"])]
  return br


def one_config(run, cls, kw, rng, idx, elementwise=False):
  fmt = lattice.fixed_format(cls, kw)
  cfg = qz.cfg_str(cls, kw)
  q = qz.make(cls, kw)
  tr = qz.Traced(q, ())
  x, o = tr.xs()[0], tr.outs()[0]
  # translator validation against the real eager call
  pts = qz.interesting_points(breakpoints(fmt), rng, n_random=24 if run.quick() else 60, scale=float(fmt["step"] * max(4, fmt["hi"])))
  bad = qz.validate_scalar(tr, q, pts)
  run.validated_points += len(pts)
  run.validated_graphs += 1
  if bad:
    run.inconclusive_("translator mismatch for %s: %s" % (cfg, bad[:3]))
    return
  meta = dict(cls=cls, kw=kw, clause="code", step=str(fmt["step"]), lo=fmt["lo"], hi=fmt["hi"])
  dom = domain(x, fmt)
  tr.b.close_stubs()
  if (cls == "quantized_linear" and fmt.get("only")) or (cls == "quantized_relu" and kw.get("use_sigmoid") and kw.get("negative_slope")):
    # sign mode (and the leaky sigmoid ReLU, which maps 0+ to a negative code): x + (xq - x) is only exact where Sterbenz'
    # lemma applies; the band around zero is a separate region so that a recorded finding there does not hide anything elsewhere
    half = ir.fp_lit(float(fmt["step"]) / 2)
    run.add("%03d_code_away" % idx, ir.build_smt(tr.b, dom + [ir.L("(fp.geq (fp.abs {0}) %s)" % half, x), code_violation(o, fmt)]),
            meta=dict(meta, region="away_from_zero"))
    run.add("%03d_code_near0" % idx, ir.build_smt(tr.b, dom + [ir.L("(fp.lt (fp.abs {0}) %s)" % half, x), code_violation(o, fmt)]),
            meta=dict(meta, region="near_zero"))
  else:
    run.add("%03d_code" % idx, ir.build_smt(tr.b, dom + [code_violation(o, fmt)]), meta=meta)
  run.add_twin("%03d_code" % idx, ir.build_smt(tr.b, dom + [ir.L("(= {0} {0})", o)]), meta=meta)
  run.configs.append(cfg)
  # element-wise lifting: on tensors of rank 1..3 every output element is the *same term* as the scalar graph applied to
  # that element (decided by hash-consing in one term store; no solver).  Together with the scalar obligation this covers
  # tensors of every traced rank.
  if elementwise:
    for shp in ((2,), (1, 2), (2, 1, 1)):
      bt = ir.Builder()
      tt = qz.Traced(q, shp, builder=bt)
      ok_all = True
      for pos in np.ndindex(*shp):
        ts = qz.Traced(q, (), name=tt.X[pos].attr, builder=bt)
        if ts.outs()[0] is not tt.out[pos]:
          ok_all = False
      ob = harness.solve.Obligation("%s_%03d_elementwise_%s" % (PROP, idx, "x".join(map(str, shp))), "(structural) tensor graph = scalar graph per element",
                                    meta=dict(meta, clause="elementwise", shape=list(shp), by="hash-consing"))
      ob.result = harness.solve.Result("unsat" if ok_all else "unknown", {}, 0.0, "hash-consing")
      run.obls.append(ob)
      if not ok_all:
        # not an alarm by itself (a refactor may build a differently shaped but equivalent graph): fall back to concrete agreement
        import tensorflow as tf
        xs = (rng.randn(*shp) * float(fmt["step"] * max(4, fmt["hi"]))).astype(np.float32)
        full = np.asarray(q(tf.constant(xs)))
        per = np.array([np.asarray(q(tf.constant(v))).reshape(-1)[0] for v in xs.reshape(-1)]).reshape(shp)
        if not np.array_equal(full, per):
          run.violation(sig_of(cls, kw, "elementwise"), dict(cfg=cfg, shape=list(shp), x=xs.tolist(), tensor_out=full.tolist(), scalar_out=per.tolist()),
                        dict(cls=cls, kw=kw, clause="elementwise", x=xs.tolist()))
        else:
          run.inconclusive_("%s: tensor graph of shape %s is not term-identical to the scalar graph (concrete agreement only)" % (cfg, shp))
  # min()/max(): implied by the code clause when the format extremes are inside [min,max]
  qmin, qmax = float(np.asarray(q.min())), float(np.asarray(q.max()))
  flo, fhi = float(fmt["lo"] * fmt["step"]), float(fmt["hi"] * fmt["step"])
  run.concrete_checks += 1
  if not (qmin <= flo and fhi <= qmax):
    m2 = dict(meta, clause="minmax", qmin=qmin, qmax=qmax)
    run.add("%03d_minmax" % idx, ir.build_smt(tr.b, dom + [ir.L("(not (and (fp.leq %s {0}) (fp.leq {0} %s)))" % (ir.fp_lit(qmin), ir.fp_lit(qmax)), o)]), meta=m2)
  # range(): exhaustive finite comparison with the format's code set; every code is a fixed point
  rg = None
  if hasattr(q, "range") and kw.get("relu_upper_bound") is None:
    try:
      rg = np.asarray(q.range(), dtype=np.float64).reshape(-1)
    except AssertionError:      # the reporter declares the configuration unsupported
      rg = None
  if rg is not None:
    run.concrete_checks += 1
    codes = fmt.get("only") or range(fmt["lo"], fmt["hi"] + 1)
    want = sorted(float(c * fmt["step"]) for c in codes)
    got = sorted(float(v) for v in rg)
    if want != got:
      sig = sig_of(cls, kw, "range")
      run.violation(sig, dict(cfg=cfg, range=got[:20], expected=want[:20]), dict(cls=cls, kw=kw, clause="range"))
    else:
      vals = np.asarray(want, dtype=np.float32)
      outv = np.asarray(q(vals)).reshape(-1)
      if not np.array_equal(outv, vals):
        run.violation(sig_of(cls, kw, "range_fixed_point"), dict(cfg=cfg), dict(cls=cls, kw=kw, clause="range_fixed_point"))
    run.aux.setdefault("range_sets_compared", 0)
    run.aux["range_sets_compared"] += 1


def triage(run):
  for o in run.obls:
    r = o.result
    if r is None:
      continue
    if o.twin:
      if r.verdict != "sat":
        run.inconclusive_("reachability twin %s is %s" % (o.oid, r.verdict))
      continue
    if r.verdict == "unsat":
      continue
    if r.verdict == "sat":
      ok, detail, rep = replay_model(o.meta, r.model)
      if ok:
        run.violation(sig_of(o.meta["cls"], o.meta["kw"], o.meta["clause"], o.meta.get("region", "all")), detail, rep)
      else:
        run.inconclusive_("counterexample of %s does not reproduce on the real code: %s" % (o.oid, detail))
    else:
      run.inconclusive_("%s: solver answered %s %s" % (o.oid, r.verdict, r.raw[-300:]))


def replay_model(meta, model):
  xb = model.get("x_b")
  if xb is None:
    return False, "no model value", None
  rep = dict(cls=meta["cls"], kw=meta["kw"], clause=meta["clause"], x_bits=xb)
  ok, detail = replay_concrete(rep)
  return ok, detail, rep


def replay_concrete(rep):
  import tensorflow as tf
  cls, kw = rep["cls"], rep["kw"]
  fmt = lattice.fixed_format(cls, kw)
  q = qz.make(cls, kw)
  if rep["clause"] == "elementwise":
    xs = np.asarray(rep["x"], dtype=np.float32)
    full = np.asarray(q(tf.constant(xs)))
    per = np.array([np.asarray(q(tf.constant(v))).reshape(-1)[0] for v in xs.reshape(-1)]).reshape(xs.shape)
    return (not np.array_equal(full, per)), dict(tensor_out=full.tolist(), scalar_out=per.tolist())
  if rep["clause"] in ("range", "range_fixed_point"):
    codes = fmt.get("only") or range(fmt["lo"], fmt["hi"] + 1)
    want = sorted(float(c * fmt["step"]) for c in codes)
    got = sorted(float(v) for v in np.asarray(q.range()).reshape(-1))
    if want != got:
      return True, dict(range=got[:20], expected=want[:20])
    vals = np.asarray(want, dtype=np.float32)
    return (not np.array_equal(np.asarray(q(vals)).reshape(-1), vals)), dict(note="fixed points")
  x = ir.bits_f32(rep["x_bits"])
  out = np.float32(np.asarray(q(tf.constant(x, tf.float32))).reshape(-1)[0])
  detail = dict(x=float(x), out=float(out), cfg=qz.cfg_str(cls, kw))
  if rep["clause"] == "code":
    why = exact_check(out, fmt)
    detail["why"] = why
    return why is not None, detail
  if rep["clause"] == "minmax":
    qmin, qmax = float(np.asarray(q.min())), float(np.asarray(q.max()))
    detail.update(qmin=qmin, qmax=qmax)
    return not (qmin <= float(out) <= qmax), detail
  return False, detail


def replay(body):
  ok, detail = replay_concrete(body["replay"])
  print("replay:", detail, "-> violation reproduced" if ok else "-> not reproduced")
  return ok


def run(tier, seed):
  r = harness.Run(PROP, "model_checking", tier, seed)
  rng = np.random.RandomState(seed)
  cfgs = lattice.fixed_lattice(tier, seed)
  r.functions = ["qkeras.quantizers.quantized_bits.__call__/min/max/range", "quantized_relu.__call__/min/max/range",
                 "quantized_linear.__call__/_scale_clip_and_round/get_clip_bounds/min/max/range",
                 "quantized_tanh.__call__", "quantized_sigmoid.__call__", "_round_through", "hard_sigmoid"]
  r.bounds = ["configuration lattice enumerated (%d configurations this run); per configuration the input is one symbolic float32 "
              "(all 2^32 bit patterns minus NaN/Inf/subnormals, |x| < 2^24 steps)" % len(cfgs),
              "constant scales restricted to powers of two; leaky slopes with slope*2^bits >= 1; relu upper bounds that are codes",
              "tensors: ranks 1..3 are covered by term identity of the traced tensor graph with the scalar graph per element (all configurations in the "
              "thorough tier; one per class plus every constant-scale configuration in the quick tier)"]
  r.assumptions = ["TF CPU kernels: IEEE binary32 RNE with FTZ/DAZ (validated on this run at %s points against the real kernels)",
                   "Tanh/Sigmoid kernels (use_real_* variants): contract stub - value in range, NaN iff argument NaN",
                   "subnormal inputs outside the claim"]
  seen_cls = set()
  for i, (cls, kw) in enumerate(cfgs):
    try:
      ew = tier == "thorough" or cls not in seen_cls or kw.get("alpha") is not None
      seen_cls.add(cls)
      one_config(r, cls, kw, rng, i, elementwise=ew)
    except tfg.Unsupported as e:
      r.inconclusive_("cannot translate %s: %s" % (qz.cfg_str(cls, kw), e))
  r.discharge()
  triage(r)
  r.assumptions[0] = r.assumptions[0] % r.validated_points
  return r.finish("QF_BVFP obligation per configuration over the graph TensorFlow traces from the current source: every finite "
                  "non-subnormal float32 input below 2^24 steps yields an in-range integer multiple of the declared step; min()/max() "
                  "follow from that plus a constant comparison (a solver query is issued when the comparison fails); range() is "
                  "compared exhaustively with the proved code set and every member is checked to be a fixed point.")
