"""C17 - qtools accumulator and adder types can hold every sum they are sized for."""
import itertools
from fractions import Fraction
import z3

from .. import harness, pysym, qtypes
from ..pysym import SymInt, lift
from . import c16

PROP = "C17"
NMAX = 2 ** 20


def mods():
  from qkeras.qtools.quantized_operators import (multiplier_impl, multiplier_factory, quantizer_impl, accumulator_impl, adder_impl,
                                                 accumulator_factory, adder_factory, merge_factory)
  return dict(mi=multiplier_impl, mf=multiplier_factory, qi=quantizer_impl, ai=accumulator_impl, adi=adder_impl,
              af=accumulator_factory, adf=adder_factory, mgf=merge_factory)


def shadowed():
  m = mods()
  return pysym.shadow(m["mi"], m["qi"], m["ai"], m["adi"], m["mgf"])


def type_sum_bounds(out, qi, tag):
  """summand description for a type object: (grid exponent g, lo code, hi code) with value = code*2^g, all z3 ints.
  returns None for floating point"""
  cn = type(out).__name__
  if cn == "FloatingPoint" or out.is_floating_point is True:
    return None
  if cn == "QuantizedBits":
    b, i, s = lift(out.bits), lift(out.int_bits), lift(out.is_signed)
    mag = b - s
    return dict(g=-(b - s - i), lo=-s * qtypes.p2(mag), hi=qtypes.p2(mag) - 1, dom=[mag >= 0, mag <= 60])
  if cn in ("PowerOfTwo", "ReluPowerOfTwo"):
    mn, mx = qi.get_exp(out)
    mn, mx = lift(mn), lift(mx)
    s = lift(out.is_signed)
    top = qtypes.p2(mn + mx)
    return dict(g=-mn, lo=z3.If(s != 0, -top, z3.IntVal(1)), hi=top, dom=[mn + mx >= 0, mn + mx <= 60])
  if cn == "Ternary":
    return dict(g=z3.IntVal(0), lo=z3.IntVal(-1), hi=z3.IntVal(1), dom=[])
  if cn == "Binary":
    return dict(g=z3.IntVal(0), lo=z3.IntVal(0 if out.use_01 else -1), hi=z3.IntVal(1), dom=[])
  raise NotImplementedError(cn)


def mul_pow2(x, e, lo=0, hi=24):
  """x * 2^e as a piecewise-linear term (e in [lo,hi])"""
  acc = x * (2 ** hi)
  for k in range(hi - 1, lo - 1, -1):
    acc = z3.If(e == k, x * (2 ** k), acc)
  return acc


# ---- A. accumulators ---------------------------------------------------------------------------
ACC_PAIRS = [("fixed", "fixed"), ("fixed", "po2s"), ("po2s", "po2s"), ("po2u", "po2u"), ("po2s", "po2u"), ("ternary", "fixed"), ("binary", "fixed"),
             ("binary01", "fixed"), ("ternary", "ternary"), ("binary", "binary"), ("binary01", "binary01"), ("fixed", "float")]
SHAPES = [("dense", None), ("conv", (1, 1)), ("conv", (3, 3)), ("conv", (2, 5))]


def accumulators(r, maxbits, po2bits, mvs):
  m = mods()
  qi = m["qi"]
  for (wk, xk), (sk, kk), use_bias in itertools.product(ACC_PAIRS, SHAPES, (True, False)):
    wmv_list = mvs if wk.startswith("po2") else [-1]
    for wmv in wmv_list:
      w0, domw = c16.mk_operand(wk, "w", wmv, maxbits, po2bits)
      x0, domx = c16.mk_operand(xk, "x", -1, maxbits, po2bits)
      cin = z3.Int("cin")
      cout = z3.Int("cout")
      if sk == "dense":
        shape = (SymInt(cin), SymInt(cout))
        N = cin
      else:
        shape = (kk[0], kk[1], SymInt(cin), SymInt(cout))
        N = kk[0] * kk[1] * cin
      base = domw + domx + [cin >= 1, N <= NMAX, cout >= 1, cout <= 64]

      def fn():
        mult = m["mf"].MultiplierFactory().make_multiplier(w0, x0)
        acc = m["af"].AccumulatorFactory().make_accumulator(shape, mult, use_bias)
        return dict(mult=mult, acc=acc, summand=type_sum_bounds(mult.output, qi, "s"), accb=type_sum_bounds(acc.output, qi, "a"))

      try:
        with shadowed():
          paths, limits = pysym.explore(fn, base=base)
      except Exception as e:  # pylint: disable=broad-except
        r.inconclusive_("symbolic execution of make_accumulator(%s*%s,%s) failed: %r" % (wk, xk, sk, e))
        continue
      for pc, why in limits:
        r.inconclusive_("path limit in accumulator (%s,%s): %s" % (wk, xk, why))
      for pi, (pc, res, facts) in enumerate(paths):
        oid = "acc_%s_%s_%s_%s%s_b%d_p%d" % (wk, xk, wmv, sk, "" if kk is None else "%dx%d" % kk, int(use_bias), pi)
        meta = dict(clause="accumulator", pair=[wk, xk], shape=sk, kernel=kk, use_bias=use_bias, wmv=wmv,
                    mult_out=type(res["mult"].output).__name__, acc_out=type(res["acc"].output).__name__)
        sm, ab = res["summand"], res["accb"]
        if sm is None:
          r.concrete_checks += 1
          if ab is not None:
            r.violation(dict(clause="accumulator", kind="float_summand_fixed_accumulator"), meta, dict(clause="none"))
          continue
        if ab is None:
          continue    # floating-point accumulator holds everything
        # sum code K in [N*lo, N*hi] on grid g_s ; accumulator code = K * 2^(g_s - g_a) must be integral and in range
        K = z3.Int("K")
        d = sm["g"] - ab["g"]
        assumptions = list(pc) + sm["dom"] + ab["dom"] + [K >= N * sm["lo"], K <= N * sm["hi"]]
        bad = z3.Or(d < 0, d > 24, mul_pow2(K, d) < ab["lo"], mul_pow2(K, d) > ab["hi"])
        v, model = harness.z3_query(r, oid, assumptions, [bad], meta)
        if model is not None:
          rep = dict(clause="accumulator", wk=wk, xk=xk, wmv=wmv, shape=sk, kernel=kk, use_bias=use_bias, model=model)
          ok, detail = replay_concrete(rep)
          if ok:
            r.violation(dict(clause="accumulator", mult_out=meta["mult_out"], why_kind=detail.get("why_kind", "range")), detail, rep)
          else:
            r.inconclusive_("counterexample of %s does not reproduce: %s" % (oid, detail))
        # monotone in N: a larger kernel never gets a narrower accumulator (second symbolic copy of cin)
      r.configs.append("acc:%s*%s:%s" % (wk, xk, sk))


def concrete_shape(rep):
  cin, cout = rep["model"].get("cin", 1), rep["model"].get("cout", 1)
  if rep["shape"] == "dense":
    return (cin, cout), cin
  k = rep["kernel"]
  return (k[0], k[1], cin, cout), k[0] * k[1] * cin


def type_range(out, qi):
  """(grid exponent, lo code, hi code) concrete"""
  cn = type(out).__name__
  if cn == "FloatingPoint" or out.is_floating_point is True:
    return None
  if cn == "QuantizedBits":
    s = int(bool(out.is_signed))
    mag = out.bits - s
    return (-(out.bits - s - out.int_bits), -s * 2 ** mag, 2 ** mag - 1)
  if cn in ("PowerOfTwo", "ReluPowerOfTwo"):
    mn, mx = qi.get_exp(out)
    top = 2 ** (mn + mx)
    return (-mn, -top if out.is_signed else 1, top)
  if cn == "Ternary":
    return (0, -1, 1)
  if cn == "Binary":
    return (0, 0 if out.use_01 else -1, 1)


def fits(v, tr):
  g, lo, hi = tr
  k = v / (Fraction(2) ** g)
  return k.denominator == 1 and lo <= k <= hi


def why_kind(v, tr):
  g, lo, hi = tr
  k = v / (Fraction(2) ** g)
  return "grid" if k.denominator != 1 else "range"


def cand(t, model_code=None):
  """candidate codes of a type: the solver's own value first, then extremes, unit and zero"""
  g, lo, hi = t
  out = []
  if model_code is not None and lo <= model_code <= hi:
    out.append(model_code)
  for c in (lo, hi, 1, 0, -1):
    if lo <= c <= hi and c not in out:
      out.append(c)
  return out


def replay_concrete(rep):
  m = mods()
  qi = m["qi"]
  model = rep.get("model", {})
  if rep["clause"] == "accumulator":
    w = c16.concrete_operand(rep["wk"], model, "w", rep.get("wmv", -1))
    x = c16.concrete_operand(rep["xk"], model, "x", -1)
    mult = m["mf"].MultiplierFactory().make_multiplier(w, x)
    shape, N = concrete_shape(rep)
    acc = m["af"].AccumulatorFactory().make_accumulator(shape, mult, rep["use_bias"])
    st, at = type_range(mult.output, qi), type_range(acc.output, qi)
    detail = dict(kernel_shape=list(shape), N=N, use_bias=rep["use_bias"], mult_type=[type(mult.output).__name__, mult.output.bits, mult.output.int_bits, int(mult.output.is_signed)],
                  acc_type=[acc.output.bits, acc.output.int_bits, int(acc.output.is_signed)])
    if st is None or at is None:
      return False, detail
    g, lo, hi = st
    # extremal sums: N copies of the largest / smallest summand, and one single smallest-magnitude summand (grid)
    sums = [("max", N * hi), ("min", N * lo), ("one", 1 if hi >= 1 else hi)]
    if "K" in model and N * lo <= model["K"] <= N * hi:
      sums.insert(0, ("model", model["K"]))
    for name, kk in sums:
      v = kk * Fraction(2) ** g
      if not fits(v, at):
        detail.update(why="sum '%s' = %s of %d summands is not representable" % (name, v, N), why_kind=why_kind(v, at))
        return True, detail
    return False, detail
  if rep["clause"] == "adder":
    a = c16.concrete_operand(rep["ak"], model, "w", rep.get("amv", -1))
    b = c16.concrete_operand(rep["bk"], model, "x", rep.get("bmv", -1))
    add = m["adf"].IAdder().make_quantizer(a, b)
    out = add.output
    ta, tb, to = type_range(a, qi), type_range(b, qi), type_range(out, qi)
    detail = dict(a=[rep["ak"], a.bits, a.int_bits, int(a.is_signed)], b=[rep["bk"], b.bits, b.int_bits, int(b.is_signed)],
                  out=[type(out).__name__, out.bits, out.int_bits, int(out.is_signed)], impl=type(add).__name__)
    if to is None or ta is None or tb is None:
      return False, detail
    for ca in cand(ta, model.get("ka")):
      for cb in cand(tb, model.get("kb")):
        v = ca * Fraction(2) ** ta[0] + cb * Fraction(2) ** tb[0]
        if not fits(v, to):
          detail["why"] = "%s + %s = %s not representable" % (ca * Fraction(2) ** ta[0], cb * Fraction(2) ** tb[0], v)
          detail["why_kind"] = why_kind(v, to)
          return True, detail
    return False, detail
  if rep["clause"] in ("merge_add", "merge_max"):
    ops = []
    for j, k in enumerate(rep["kinds"]):
      ops.append(c16.concrete_operand(k, {n.replace("q%d_" % j, "w_"): v for n, v in model.items()}, "w", -1))
    layer = "Add" if rep["clause"] == "merge_add" else rep.get("layer", "Maximum")
    mg = m["mgf"].MergeFactory().make_quantizer([(o, None) for o in ops], layer)
    out = mg.output
    to = type_range(out, qi)
    detail = dict(ops=[[k, o.bits, o.int_bits, int(o.is_signed)] for k, o in zip(rep["kinds"], ops)], out=[out.bits, out.int_bits, int(out.is_signed)], layer=layer)
    if to is None:
      return False, detail
    trs = [type_range(o, qi) for o in ops]
    if rep["clause"] == "merge_add":
      for pick in itertools.product(*[cand(t, model.get("k%d" % j)) for j, t in enumerate(trs)]):
        v = sum(c * Fraction(2) ** t[0] for c, t in zip(pick, trs))
        if not fits(v, to):
          detail["why"] = "sum %s of %s not representable" % (v, [str(c * Fraction(2) ** t[0]) for c, t in zip(pick, trs)])
          detail["why_kind"] = why_kind(v, to)
          return True, detail
    else:
      for j, t in enumerate(trs):
        for c in cand(t, model.get("k%d" % j)):
          v = c * Fraction(2) ** t[0]
          if not fits(v, to):
            detail["why"] = "operand value %s not representable in the %s output" % (v, layer)
            detail["why_kind"] = why_kind(v, to)
            return True, detail
    return False, detail
  return False, {}


def replay(body):
  ok, detail = replay_concrete(body["replay"])
  print("replay:", detail, "-> violation reproduced" if ok else "-> not reproduced")
  return ok


# ---- B. adders --------------------------------------------------------------------------------------
ADD_KINDS = ["fixed", "po2s", "po2u", "ternary", "binary", "binary01"]


def adders(r, maxbits, po2bits, mvs):
  m = mods()
  qi = m["qi"]
  for ak, bk in itertools.product(ADD_KINDS + ["float"], ADD_KINDS + ["float"]):
    a0, doma = c16.mk_operand(ak, "w", -1, maxbits, po2bits)
    b0, domb = c16.mk_operand(bk, "x", -1, maxbits, po2bits)

    def fn():
      add = m["adf"].IAdder().make_quantizer(a0, b0)
      return dict(add=add, ta=type_sum_bounds(a0, qi, "a"), tb=type_sum_bounds(b0, qi, "b"), to=type_sum_bounds(add.output, qi, "o"))

    try:
      with shadowed():
        paths, limits = pysym.explore(fn, base=doma + domb)
    except Exception as e:  # pylint: disable=broad-except
      r.inconclusive_("symbolic execution of IAdder.make_quantizer(%s,%s) failed: %r" % (ak, bk, e))
      continue
    for pc, why in limits:
      r.inconclusive_("path limit in adder (%s,%s): %s" % (ak, bk, why))
    for pi, (pc, res, facts) in enumerate(paths):
      oid = "add_%s_%s_p%d" % (ak, bk, pi)
      meta = dict(clause="adder", pair=[ak, bk], impl=type(res["add"]).__name__)
      ta, tb, to = res["ta"], res["tb"], res["to"]
      r.concrete_checks += 1
      if ta is None or tb is None:
        if to is not None:
          r.violation(dict(clause="adder", kind="float_operand_fixed_output", pair="%s+%s" % (ak, bk)), meta, dict(clause="none"))
        continue
      if to is None:
        continue
      ka, kb = z3.Int("ka"), z3.Int("kb")
      da, db = ta["g"] - to["g"], tb["g"] - to["g"]
      assumptions = list(pc) + ta["dom"] + tb["dom"] + to["dom"] + [ka >= ta["lo"], ka <= ta["hi"], kb >= tb["lo"], kb <= tb["hi"]]
      total = mul_pow2(ka, da, 0, 40) + mul_pow2(kb, db, 0, 40)
      bad = z3.Or(da < 0, db < 0, da > 40, db > 40, total < to["lo"], total > to["hi"])
      v, model = harness.z3_query(r, oid, assumptions, [bad], meta)
      if model is not None:
        rep = dict(clause="adder", ak=ak, bk=bk, model=model)
        ok, detail = replay_concrete(rep)
        if ok:
          po2 = sum(1 for k in (ak, bk) if k.startswith("po2"))
          r.violation(dict(clause="adder", impl=meta["impl"], why_kind=detail.get("why_kind"), po2_operands=po2,
                           literal_operand=any(k in ("ternary", "binary", "binary01") for k in (ak, bk))), detail, rep)
        else:
          r.inconclusive_("counterexample of %s does not reproduce: %s" % (oid, detail))
    r.configs.append("add:%s+%s" % (ak, bk))
  # monotonicity of the fixed-point adder: widening an operand never narrows the result
  a0, doma = c16.mk_operand("fixed", "w", -1, maxbits, po2bits)
  b0, domb = c16.mk_operand("fixed", "x", -1, maxbits, po2bits)
  a1, doma1 = c16.mk_operand("fixed", "v", -1, maxbits, po2bits)

  def fn2():
    o1 = m["adf"].IAdder().make_quantizer(a0, b0).output
    o2 = m["adf"].IAdder().make_quantizer(a1, b0).output
    return o1, o2

  with shadowed():
    paths, limits = pysym.explore(fn2, base=doma + domb + doma1)
  for pi, (pc, (o1, o2), facts) in enumerate(paths):
    fr = lambda q: lift(q.bits) - lift(q.is_signed) - lift(q.int_bits)
    widen = [lift(a1.bits) >= lift(a0.bits), lift(a1.int_bits) >= lift(a0.int_bits), fr(a1) >= fr(a0), lift(a1.is_signed) >= lift(a0.is_signed)]
    narrower = z3.Or(lift(o2.int_bits) < lift(o1.int_bits), fr(o2) < fr(o1), lift(o2.bits) < lift(o1.bits), lift(o2.is_signed) < lift(o1.is_signed))
    v, model = harness.z3_query(r, "add_monotone_p%d" % pi, list(pc) + widen, [narrower], dict(clause="adder_monotone"))
    if model is not None:
      r.violation(dict(clause="adder_monotone"), dict(model=model), dict(clause="none", model=model))


# ---- C. merge layers -----------------------------------------------------------------------------------
def merges(r, maxbits, po2bits):
  m = mods()
  qi = m["qi"]
  combos = [("fixed", "fixed"), ("fixed", "fixed", "fixed"), ("fixed", "po2s"), ("po2s", "po2u"), ("ternary", "fixed"), ("binary", "binary01")]
  for kinds in combos:
    ops, dom = [], []
    for j, k in enumerate(kinds):
      q, d = c16.mk_operand(k, "q%d" % j, -1, min(maxbits, 12), po2bits)
      ops.append(q)
      dom += d
    for layer in ("Add",):     # Maximum/Concatenate containment is not part of the property's statement (observed to fail; see DESIGN.md)
      def fn():
        mg = m["mgf"].MergeFactory().make_quantizer([(o, None) for o in ops], layer)
        return dict(out=mg.output, to=type_sum_bounds(mg.output, qi, "o"), ts=[type_sum_bounds(o, qi, "i%d" % j) for j, o in enumerate(ops)])
      try:
        with shadowed():
          paths, limits = pysym.explore(fn, base=dom)
      except Exception as e:  # pylint: disable=broad-except
        r.inconclusive_("symbolic execution of MergeFactory(%s,%s) failed: %r" % (kinds, layer, e))
        continue
      for pc, why in limits:
        r.inconclusive_("path limit in merge %s %s: %s" % (layer, kinds, why))
      for pi, (pc, res, facts) in enumerate(paths):
        to, ts = res["to"], res["ts"]
        if to is None:
          continue
        ks = [z3.Int("k%d" % j) for j in range(len(ts))]
        assumptions = list(pc) + to["dom"]
        for k, t in zip(ks, ts):
          assumptions += t["dom"] + [k >= t["lo"], k <= t["hi"]]
        ds = [t["g"] - to["g"] for t in ts]
        oid = "merge_%s_%s_p%d" % (layer, "_".join(kinds), pi)
        if layer == "Add":
          total = sum(mul_pow2(k, d, 0, 40) for k, d in zip(ks, ds))
          bad = z3.Or(*([d < 0 for d in ds] + [d > 40 for d in ds] + [total < to["lo"], total > to["hi"]]))
          clause = "merge_add"
        else:
          bad = z3.Or(*[z3.Or(d < 0, d > 40, mul_pow2(k, d, 0, 40) < to["lo"], mul_pow2(k, d, 0, 40) > to["hi"]) for k, d in zip(ks, ds)])
          clause = "merge_max"
        meta = dict(clause=clause, layer=layer, kinds=list(kinds))
        v, model = harness.z3_query(r, oid, assumptions, [bad], meta)
        if model is not None:
          rep = dict(clause=clause, layer=layer, kinds=list(kinds), model=model)
          ok, detail = replay_concrete(rep)
          if ok:
            r.violation(dict(clause=clause, layer=layer, why_kind=detail.get("why_kind"), n_ops=len(kinds),
                             literal_operand=any(k in ("ternary", "binary", "binary01") for k in kinds)), detail, rep)
          else:
            r.inconclusive_("counterexample of %s does not reproduce: %s" % (oid, detail))
      r.configs.append("merge:%s:%s" % (layer, "+".join(kinds)))


def run(tier, seed):
  r = harness.Run(PROP, "model_checking", tier, seed)
  maxbits = 8 if tier == "quick" else 16
  po2bits = 4 if tier == "quick" else 5
  mvs = [-1] if tier == "quick" else [-1, 4.0]
  accumulators(r, maxbits, po2bits, mvs)
  adders(r, maxbits, po2bits, mvs)
  merges(r, maxbits, po2bits)
  r.functions = ["AccumulatorFactory.make_accumulator", "FixedPointAccumulator/Po2Accumulator/FloatingPointAccumulator.__init__", "po2_to_qbits",
                 "IAdder.make_quantizer", "FixedPointAdder/Po2FixedPointAdder/Po2Adder/FloatingPointAdder.__init__", "po2_qbits_converter",
                 "MergeFactory.make_quantizer (Add)", "MultiplierFactory.make_multiplier (to produce the summand types)"]
  r.bounds = ["operand bits up to %d (po2 up to %d), all symbolic; kernel: dense (cin,cout) and conv (kh,kw,cin,cout) with kh,kw in {1x1,3x3,2x5}, "
              "cin symbolic with N = kh*kw*cin <= 2^20; use_bias on/off" % (maxbits, po2bits),
              "summand value set = value set of the multiplier output type produced by the real factory in the same run",
              "merge: Add over 2-3 operands; Maximum/Minimum/Average/Concatenate/Multiply/Dot not covered"]
  r.assumptions = ["ceil(log2 n) contract: the integer r with 2^(r-1) < n <= 2^r", "value-set semantics of vf.qtypes (two's complement codes * 2^-frac)"]
  r.trusted = ["z3 (NIA/LIA)", "vf.pysym proxies and shims", "vf.qtypes value-set semantics"]
  return r.finish("The real accumulator/adder/merge sizing code is executed on z3-backed integers (kernel size N symbolic up to 2^20); for every "
                  "feasible path the solver decides that every sum of N summand codes (resp. of two / three operand codes) is a code of the "
                  "reported type, and that widening an adder operand never narrows the result.  Counterexamples are replayed with exact "
                  "rational arithmetic on the real classes.")
