"""C11 - quantized layers equal their Keras layer run on pre-quantized weights (drop-in)."""
import itertools
import random
import numpy as np

from .. import harness, ir, qz, tfg, equiv, layers

PROP = "C11"
QUANTS = [None, "quantized_bits(4,0,1,alpha=1)", "quantized_bits(4,0,1)", "quantized_po2(4)", "binary(alpha=1)", "ternary(alpha=1)"]
ACTS = [None, "quantized_relu(4,1)", "quantized_bits(6,2,1,alpha=1)", "quantized_tanh(4)"]


def geometries(tier, seed):
  """(qclass, ctor kwargs, input sample shape)"""
  g = []
  for units, use_bias in itertools.product((1, 3), (True, False)):
    g.append(("QDense", dict(units=units, use_bias=use_bias), (3,)))
  for filters, k, s, pad, d, use_bias in itertools.product((1, 2), (1, 2, 3), (1, 2), ("valid", "same", "causal"), (1, 2), (True, False)):
    if s > 1 and d > 1:
      continue
    g.append(("QConv1D", dict(filters=filters, kernel_size=k, strides=s, padding=pad, dilation_rate=d, use_bias=use_bias), (5, 2)))
  for filters, k, s, pad, d, use_bias, groups in itertools.product((1, 2), (1, 2, 3), (1, 2), ("valid", "same"), (1, 2), (True, False), (1, 2)):
    if (s > 1 and d > 1) or (groups == 2 and filters != 2):
      continue
    kw = dict(filters=filters, kernel_size=k, strides=s, padding=pad, dilation_rate=d, use_bias=use_bias)
    if groups == 2:
      kw["groups"] = 2
    g.append(("QConv2D", kw, (4, 4, 2)))
  for k, s, pad, dm, use_bias in itertools.product((1, 2, 3), (1, 2), ("valid", "same"), (1, 2), (True, False)):
    g.append(("QDepthwiseConv2D", dict(kernel_size=k, strides=s, padding=pad, depth_multiplier=dm, use_bias=use_bias), (4, 4, 2)))
  for filters, k, s, pad, dm, use_bias in itertools.product((1, 2), (1, 2), (1, 2), ("valid", "same"), (1, 2), (True, False)):
    g.append(("QSeparableConv2D", dict(filters=filters, kernel_size=k, strides=s, padding=pad, depth_multiplier=dm, use_bias=use_bias), (4, 4, 2)))
    g.append(("QSeparableConv1D", dict(filters=filters, kernel_size=k, strides=s, padding=pad, depth_multiplier=dm, use_bias=use_bias), (5, 2)))
  g.append(("QConv2D", dict(filters=2, kernel_size=2, data_format="channels_first", use_bias=True), (2, 4, 4)))
  if tier == "thorough":
    return g
  core = [
      ("QDense", dict(units=3, use_bias=True), (3,)),
      ("QDense", dict(units=1, use_bias=False), (3,)),
      ("QConv1D", dict(filters=2, kernel_size=3, strides=1, padding="causal", dilation_rate=2, use_bias=True), (5, 2)),
      ("QConv1D", dict(filters=1, kernel_size=2, strides=2, padding="same", dilation_rate=1, use_bias=False), (5, 2)),
      ("QConv2D", dict(filters=2, kernel_size=3, strides=2, padding="same", dilation_rate=1, use_bias=True), (4, 4, 2)),
      ("QConv2D", dict(filters=2, kernel_size=2, strides=1, padding="valid", dilation_rate=2, use_bias=True), (4, 4, 2)),
      ("QConv2D", dict(filters=2, kernel_size=2, strides=1, padding="same", dilation_rate=1, use_bias=False, groups=2), (4, 4, 2)),
      ("QDepthwiseConv2D", dict(kernel_size=3, strides=1, padding="same", depth_multiplier=2, use_bias=True), (4, 4, 2)),
      ("QDepthwiseConv2D", dict(kernel_size=2, strides=2, padding="valid", depth_multiplier=1, use_bias=False), (4, 4, 2)),
      ("QSeparableConv2D", dict(filters=2, kernel_size=2, strides=1, padding="same", depth_multiplier=2, use_bias=True), (4, 4, 2)),
      ("QSeparableConv1D", dict(filters=2, kernel_size=2, strides=1, padding="valid", depth_multiplier=1, use_bias=True), (5, 2)),
  ]
  rr = random.Random(seed)
  rest = [x for x in g if x not in core]
  rr.shuffle(rest)
  return core + rest[:6]


def quant_choices(tier, seed, n):
  """list of (tuple of quantizer strings for the n weights, activation)"""
  rr = random.Random(seed * 7 + n)
  out = [(tuple([None] * n), None), (tuple(["quantized_bits(4,0,1,alpha=1)"] * n), "quantized_relu(4,1)"),
         (tuple(QUANTS[1 + (i % 5)] for i in range(n)), None)]
  if tier == "thorough":
    for _ in range(4):
      out.append((tuple(rr.choice(QUANTS) for _ in range(n)), rr.choice(ACTS)))
  else:
    out.append((tuple(rr.choice(QUANTS) for _ in range(n)), rr.choice(ACTS)))
  return out


def build_pair(qcls, kw, sample, qstrs, act):
  import tensorflow as tf
  Q = layers.qk()
  spec = layers.SPECS[qcls]
  qkw = dict(kw)
  for a, s in zip(spec["qargs"], qstrs):
    if s is not None and not (a == "bias_quantizer" and not kw.get("use_bias", True)):
      qkw[a] = s
  if act is not None:
    qkw["activation"] = act
  L = getattr(Q, qcls)(**qkw)
  L.build((None,) + tuple(sample))
  S = getattr(layers.K3().layers, spec["stock"])(**kw)
  S.build((None,) + tuple(sample))
  nw = len(layers.weight_shapes(L))
  if layers.weight_shapes(L) != layers.weight_shapes(S):
    raise RuntimeError("weight shapes differ: %s vs %s" % (layers.weight_shapes(L), layers.weight_shapes(S)))
  return L, S, spec, nw


def one(run, idx, qcls, kw, sample, qstrs, act):
  import tensorflow as tf
  tag = "%s(%s) q=%s act=%s" % (qcls, ",".join("%s=%r" % kv for kv in sorted(kw.items())), list(qstrs), act)
  try:
    L, S, spec, nw = build_pair(qcls, kw, sample, qstrs, act)
  except Exception as e:  # pylint: disable=broad-except
    run.aux.setdefault("not_constructible", []).append("%s: %r" % (tag, e))
    return
  shapes = [(1,) + tuple(sample)] + layers.weight_shapes(L)
  names = ["x"] + ["w%d" % i for i in range(nw)]
  reported = list(L.get_quantizers())
  meta = dict(layer=qcls, kw=kw, quantizers=list(qstrs), activation=act, reported=[str(q) if q is not None else None for q in reported])
  # the layer must report one quantizer per weight slot it declares, in weight order
  run.concrete_checks += 1
  if len(reported) < nw:
    run.violation(dict(clause="reported_quantizers", layer=qcls), dict(cfg=tag, reported=meta["reported"], weights=nw), dict(clause="reported", **_rep(qcls, kw, sample, qstrs, act)))
    return
  fq = layers.inject_call(L, layers.weight_attrs(L))
  fref = layers.reference_call(S, layers.weight_attrs(S), reported[:nw], L.activation if act is not None else None)

  def confirm(w):
    ts = layers.witness_tensors(w, names, shapes)
    a = np.asarray(fq(*[tf.constant(t) for t in ts]))
    r = np.asarray(fref(*[tf.constant(t) for t in ts]))
    bad = not np.allclose(a, r, rtol=1e-5, atol=1e-6, equal_nan=True)
    return bad, dict(inputs=[t.tolist() for t in ts], layer_out=a.tolist(), reference_out=r.tolist())

  try:
    b = ir.Builder()
    ta = layers.MultiTraced(fq, names, shapes, b)
    tb = layers.MultiTraced(fref, names, shapes, b)
  except tfg.Unsupported as e:
    run.aux.setdefault("untranslated", []).append("%s: %s" % (tag, e))
    rs = np.random.RandomState(idx)
    w = {}
    ok, detail = confirm_random(fq, fref, shapes, rs)
    run.concrete_checks += 1
    if ok:
      run.violation(dict(clause="drop_in", layer=qcls, how="random"), dict(cfg=tag, **detail), dict(clause="drop_in", **_rep(qcls, kw, sample, qstrs, act), inputs=detail["inputs"]))
    return
  run.configs.append(tag)
  inputs = ta.input_nodes()
  dom = [qz.finite_normal(x) for x in inputs] + [qz.abs_lt(x, 2.0 ** 10) for x in inputs]
  rs = np.random.RandomState(idx)
  probes = []
  for s in (0.3, 1.0, 3.0):
    probes.append({n.attr: float(v) for n, v in zip(inputs, (rs.randn(len(inputs)) * s).astype(np.float32))})
  v = equiv.decide(run, "%04d" % idx, b, ta.out, tb.out, inputs, dom, confirm, meta, fp=True, probes=probes, timeout=600,
                   relax_kw=dict(lo=2.0 ** -4, hi=4.0, margin=1e-2, timeout_ms=10000))
  if v.kind == "different":
    run.violation(dict(clause="drop_in", layer=qcls, how=v.how), dict(cfg=tag, **{k: v.detail[k] for k in ("layer_out", "reference_out") if k in v.detail}),
                  dict(clause="drop_in", **_rep(qcls, kw, sample, qstrs, act), inputs=v.detail.get("inputs")))
  elif v.kind == "inconclusive":
    run.inconclusive_("%s: %s" % (tag, v.how))


def confirm_random(fq, fref, shapes, rs):
  import tensorflow as tf
  for s in (0.3, 1.0, 3.0):
    ts = [(rs.randn(*sh) * s).astype(np.float32) for sh in shapes]
    a = np.asarray(fq(*[tf.constant(t) for t in ts]))
    r = np.asarray(fref(*[tf.constant(t) for t in ts]))
    if not np.allclose(a, r, rtol=1e-5, atol=1e-6, equal_nan=True):
      return True, dict(inputs=[t.tolist() for t in ts], layer_out=a.tolist(), reference_out=r.tolist())
  return False, dict(inputs=[])


def _rep(qcls, kw, sample, qstrs, act):
  return dict(layer=qcls, kw=kw, sample=list(sample), quantizers=list(qstrs), activation=act)


def others(run):
  """QActivation, QScaleShift, pooling: references built directly from the property's wording"""
  import tensorflow as tf
  Q = layers.qk()
  idx = 9000
  # QScaleShift: x * q(w) + q(b)
  for wq, bq, act, use_bias in ((None, None, None, True), ("quantized_bits(4,0,1,alpha=1)", "quantized_bits(4,2,1,alpha=1)", None, True),
                                ("quantized_po2(4)", None, "quantized_relu(4,1)", True), ("binary(alpha=1)", None, None, False)):
    idx += 1
    L = Q.QScaleShift(weight_quantizer=wq, bias_quantizer=bq, activation=act, use_bias=use_bias)
    L.build((None, 3))
    attrs = ["weight", "bias"][:2 if use_bias else 1]
    shapes = [(1, 3)] + [(1, 1)] * len(attrs)
    names = ["x"] + ["w%d" % i for i in range(len(attrs))]
    rep = list(L.get_quantizers())
    fq = layers.inject_call(L, attrs)

    def fref(x, *ws, rep=rep, L=L, use_bias=use_bias, act=act):
      w = rep[0](ws[0]) if rep[0] is not None else ws[0]
      y = tf.math.multiply(x, w)
      if use_bias:
        bb = rep[1](ws[1]) if rep[1] is not None else ws[1]
        y = bb + y
      return L.activation(y) if act is not None else y
    _compare(run, idx, "QScaleShift(w=%s,b=%s,act=%s,bias=%s)" % (wq, bq, act, use_bias), fq, fref, names, shapes, dict(layer="QScaleShift"))
  # QActivation: exactly the quantizer
  for s in ("quantized_relu(4,1)", "quantized_bits(4,1,1,alpha=1)", "quantized_po2(4)", "binary(alpha=1)"):
    idx += 1
    L = Q.QActivation(s)
    qq = L.quantizer
    _compare(run, idx, "QActivation(%s)" % s, lambda x, L=L: L.call(x), lambda x, qq=qq: qq(x), ["x"], [(1, 3)], dict(layer="QActivation"))
  # pooling: without quantizer the stock layer; with quantizer pool-average of (x*area) times the quantized reciprocal
  for cls, stock, kw, sample in (("QAveragePooling2D", "AveragePooling2D", dict(pool_size=2), (4, 4, 1)),
                                 ("QAveragePooling2D", "AveragePooling2D", dict(pool_size=2, strides=1, padding="same"), (3, 3, 1)),
                                 ("QGlobalAveragePooling2D", "GlobalAveragePooling2D", dict(), (2, 2, 2)),
                                 ("QGlobalAveragePooling2D", "GlobalAveragePooling2D", dict(), (2, 3, 2)),
                                 ("QGlobalAveragePooling2D", "GlobalAveragePooling2D", dict(data_format="channels_first"), (2, 2, 3)),
                                 ("QAveragePooling2D", "AveragePooling2D", dict(pool_size=(1, 2)), (2, 4, 1))):
    for aq, act in ((None, None), ("quantized_bits(8,0,1,alpha=1)", None), ("quantized_bits(6,0,1,alpha=1)", "quantized_bits(8,3,1,alpha=1)")):
      idx += 1
      L = getattr(Q, cls)(average_quantizer=aq, activation=act, **kw)
      S = getattr(layers.K3().layers, stock)(**kw)
      spatial = sample[1:] if kw.get("data_format") == "channels_first" else sample[:2]
      area = float(np.prod(spatial)) if cls.startswith("QGlobal") else float(np.prod(L.pool_size))
      rep = list(L.get_quantizers())

      def fref(x, S=S, rep=rep, aq=aq, act=act, L=L, area=area, cls=cls):
        if aq is None:
          y = S.call(x)
        elif cls.startswith("QGlobal"):
          y = tf.reduce_sum(x, axis=[2, 3] if kw.get("data_format") == "channels_first" else [1, 2]) * rep[0](1.0 / area)
        else:
          y = S.call(x * area) * tf.cast(rep[0](1.0 / area), tf.float32)
        return L.activation(y) if act is not None else y
      _compare(run, idx, "%s(%s,aq=%s,act=%s)" % (cls, kw, aq, act), lambda x, L=L: L.call(x), fref, ["x"], [(1,) + sample], dict(layer=cls))


def _compare(run, idx, tag, fq, fref, names, shapes, meta):
  import tensorflow as tf

  def confirm(w):
    ts = layers.witness_tensors(w, names, shapes)
    a = np.asarray(fq(*[tf.constant(t) for t in ts]))
    r = np.asarray(fref(*[tf.constant(t) for t in ts]))
    return (not np.allclose(a, r, rtol=1e-5, atol=1e-6, equal_nan=True)), dict(inputs=[t.tolist() for t in ts], layer_out=a.tolist(), reference_out=r.tolist())
  try:
    b = ir.Builder()
    ta = layers.MultiTraced(fq, names, shapes, b)
    tb = layers.MultiTraced(fref, names, shapes, b)
  except tfg.Unsupported as e:
    run.aux.setdefault("untranslated", []).append("%s: %s" % (tag, e))
    return
  run.configs.append(tag)
  inputs = ta.input_nodes()
  dom = [qz.finite_normal(x) for x in inputs] + [qz.abs_lt(x, 2.0 ** 10) for x in inputs]
  rs = np.random.RandomState(idx)
  probes = [{n.attr: float(v) for n, v in zip(inputs, (rs.randn(len(inputs)) * s).astype(np.float32))} for s in (0.3, 1.0, 3.0)]
  v = equiv.decide(run, "%04d" % idx, b, ta.out, tb.out, inputs, dom, confirm, dict(meta, cfg=tag), fp=True, probes=probes, timeout=600,
                   relax_kw=dict(lo=2.0 ** -4, hi=4.0, margin=1e-2, timeout_ms=10000))
  if v.kind == "different":
    run.violation(dict(clause="drop_in", layer=meta["layer"], how=v.how), dict(cfg=tag, **{k: v.detail[k] for k in ("layer_out", "reference_out") if k in v.detail}),
                  dict(clause="other", tag=tag))
  elif v.kind == "inconclusive":
    run.inconclusive_("%s: %s" % (tag, v.how))


def replay_concrete(rep):
  import tensorflow as tf
  if rep["clause"] == "other":
    return True, dict(note="re-run ./check C11 to reproduce " + rep["tag"])
  L, S, spec, nw = build_pair(rep["layer"], rep["kw"], tuple(rep["sample"]), rep["quantizers"], rep["activation"])
  reported = list(L.get_quantizers())
  if rep["clause"] == "reported":
    return len(reported) < nw, dict(reported=[str(q) for q in reported])
  fq = layers.inject_call(L, layers.weight_attrs(L))
  fref = layers.reference_call(S, layers.weight_attrs(S), reported[:nw], L.activation if rep["activation"] is not None else None)
  ts = [np.asarray(t, dtype=np.float32) for t in rep["inputs"]]
  a = np.asarray(fq(*[tf.constant(t) for t in ts]))
  r = np.asarray(fref(*[tf.constant(t) for t in ts]))
  return (not np.allclose(a, r, rtol=1e-5, atol=1e-6, equal_nan=True)), dict(layer_out=a.tolist(), reference_out=r.tolist())


def replay(body):
  ok, detail = replay_concrete(body["replay"])
  print("replay:", str(detail)[:800], "-> violation reproduced" if ok else "-> not reproduced")
  return ok


def run(tier, seed):
  r = harness.Run(PROP, "translation_validation", tier, seed)
  idx = 0
  for qcls, kw, sample in geometries(tier, seed):
    nw = len(layers.SPECS[qcls]["qattrs"]) - (0 if kw.get("use_bias", True) else 1)
    for qstrs, act in quant_choices(tier, seed + idx, nw):
      idx += 1
      try:
        one(r, idx, qcls, kw, sample, qstrs, act)
      except Exception as e:  # pylint: disable=broad-except
        import traceback
        traceback.print_exc()
        r.inconclusive_("harness error on %s %s: %r" % (qcls, kw, e))
  try:
    others(r)
  except Exception as e:  # pylint: disable=broad-except
    import traceback
    traceback.print_exc()
    r.inconclusive_("harness error in others(): %r" % (e,))
  obls = [o for o in r.obls if not o.twin]
  r.aux.update(programs=len(r.configs), equivalences_structural=sum(1 for o in obls if o.result is not None and o.result.solver == "hash-consing"),
               disagreements_checked=sum(1 for o in obls if o.result is not None and o.result.verdict == "sat"))
  r.functions = ["QDense.call", "QConv1D.call", "QConv2D.call", "QDepthwiseConv2D.call", "QSeparableConv1D/2D.call", "QAveragePooling2D.call",
                 "QGlobalAveragePooling2D.call", "QScaleShift.call", "QActivation.call", "get_quantizers()"]
  r.bounds = ["%d (layer type, geometry, quantizer assignment) instances; input one sample of 3..32 elements, all weights symbolic" % len(r.configs),
              "heavy linear operators: index structure extracted from the real TF kernel, opaque (order-insensitive) in the exact encoding",
              "QConv2DTranspose, QSimpleRNN/QLSTM/QGRU and their cells cannot be constructed or called under the pinned Keras 3 and are outside the claim",
              "pooling with an average quantizer is compared with pool-average(x*area)*q(1/area) (the layer's documented formula)"]
  r.assumptions = ["TF linear kernels are bilinear with 0/1 structure and batch independent (checked against the kernel on random tensors)",
                   "weights are injected into the layer objects through their attributes (object.__setattr__), the layer code itself is unmodified"]
  return r.finish("Each quantized layer's call() is traced with symbolic input and symbolic weights; the reference is the stock Keras layer's "
                  "call() traced with q_i(w_i) injected - q_i being the quantizer objects the layer reports, in weight order - followed by the "
                  "layer's activation quantizer.  Both graphs live in one hash-consed term store: identical output terms prove equality for "
                  "every input and weight value; otherwise probes / real relaxation / exact miter produce a replayed distinguishing input.")
