#!/bin/bash
# tools/try_seed_wt.sh <seed-dir> <worktree-with-the-change-applied> <property ids...>
# Same as try_seed.sh but runs the checks against a scratch worktree (VERIF_REPO) instead of patching /repo -
# used while long runs against /repo are in flight.
set -u
SD="$1"; WT="$2"; shift; shift
echo "== demo on unchanged tree"; PYTHONPATH=/repo TF_CPP_MIN_LOG_LEVEL=3 /venv/bin/python "$SD/demo.py" > /tmp/seed_demo_clean.log 2>&1; echo "exit=$?"
echo "== demo on changed tree"; PYTHONPATH="$WT" TF_CPP_MIN_LOG_LEVEL=3 /venv/bin/python "$SD/demo.py" > /tmp/seed_demo_changed.log 2>&1; echo "exit=$?"
for p in "$@"; do
  echo "== check $p (${TIER:-quick}) against the change"
  (cd /verif && VERIF_REPO="$WT" ./check "$p" --tier "${TIER:-quick}" > "/tmp/seed_check_$p.log" 2>&1; echo "exit=$?"; grep -c "^VIOLATION" "/tmp/seed_check_$p.log"; grep "^\[$p\] tier" "/tmp/seed_check_$p.log")
done
