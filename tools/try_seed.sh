#!/bin/bash
# tools/try_seed.sh <seed-dir> <property ids...> : confirm a seeded change, run checks against it, undo it.
# /repo is patched only for the duration of the run (git apply / git checkout -- .).
set -u
SD="$1"; shift
cd /repo || exit 2
if ! git diff --quiet; then echo "/repo has uncommitted changes"; exit 2; fi
echo "== demo on unchanged tree"; PYTHONPATH=/repo TF_CPP_MIN_LOG_LEVEL=3 /venv/bin/python "$SD/demo.py" > /tmp/seed_demo_clean.log 2>&1; echo "exit=$?"
git apply "$SD/patch.diff" || { echo "patch does not apply"; exit 2; }
echo "== demo on changed tree"; PYTHONPATH=/repo TF_CPP_MIN_LOG_LEVEL=3 /venv/bin/python "$SD/demo.py" > /tmp/seed_demo_changed.log 2>&1; echo "exit=$?"
for p in "$@"; do
  echo "== check $p (quick) against the change"
  (cd /verif && ./check "$p" --tier "${TIER:-quick}" > "/tmp/seed_check_$p.log" 2>&1; echo "exit=$?"; grep -c "^VIOLATION" "/tmp/seed_check_$p.log"; grep "^\[$p\] tier" "/tmp/seed_check_$p.log")
done
git -C /repo checkout -- .
git -C /repo status --short | head -3
