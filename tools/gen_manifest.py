#!/usr/bin/env python3
"""Regenerates MANIFEST.json from the table below (single source of truth for the interface)."""
import json
import os

ROOT = os.path.dirname(os.path.dirname(os.path.abspath(__file__)))

CHECKS = {
    "C01": dict(
        level="model_checking", engine="tfg2smt",
        technique="bounded SMT (QF_BVFP, cvc5) over the TF graph traced from the real quantizer; one symbolic float32 input per configuration",
        text="Per enumerated configuration the solver decides, for every float32 input below 2^24 steps, that the traced quantizer "
             "graph emits an in-range integer multiple of the declared step; counterexamples are replayed on the real quantizer. "
             "Bounded model checking: the configuration lattice is enumerated, the input is fully symbolic.",
        note="Trusted: cvc5/z3, TensorFlow's tracer, the FTZ/DAZ platform model and Tanh/Sigmoid contract stubs (validated against the "
             "real kernels on every run). Outside: subnormal inputs, non-power-of-two constant scales, configurations not in the lattice.",
        ref="DESIGN.md section 3 C01"),
    "C02": dict(
        level="model_checking", engine="tfg2smt",
        technique="bounded SMT (QF_BVFP, cvc5) over the traced quantizer graph: nearest-code, fixed-point and two-copy monotonicity queries",
        text="Per configuration three families of solver queries over the traced graph: the output is an in-range code within half a grid "
             "step of a harness-side surrogate (or the end code beyond the range); every in-range code is a fixed point; and for two "
             "symbolic inputs x<=y the outputs are ordered.  All float32 inputs below 2^24 steps are covered per configuration.",
        note="Trusted as C01.  'Nearest' carries a tolerance of step*2^-12 for the float rounding of the surrogate; monotonicity is "
             "claimed for linear/ReLU/hard-tanh/hard-sigmoid formats only (the real tanh/sigmoid kernels are measurably not monotone).",
        ref="DESIGN.md section 3 C02"),
    "C03": dict(
        level="model_checking", engine="tfg2smt",
        technique="bounded SMT (QF_BVFP, cvc5) over the traced po2 graphs with validated Log/Pow contract stubs; bit-level oracle on the output pattern",
        text="Per configuration the solver decides for every float32 input of the exactness region that the output bit pattern is "
             "sign|exponent|zero-mantissa with the exponent equal to the clamped log2-nearest (or floor) exponent derived from the input's "
             "own exponent and mantissa fields; idempotence over all admissible powers of two; tie windows and floor-mode powers of two "
             "are enumerated exhaustively on the real code.",
        note="Trusted: Log/Pow kernel contracts (validated against the real kernels on every run, 10^4..10^6 points), FTZ/DAZ model. "
             "Regions where the straight-through residual is inexact are queried separately and listed as known findings.",
        ref="DESIGN.md section 3 C03"),
    "C16": dict(
        level="model_checking", engine="pysym",
        technique="symbolic execution of the real qtools multiplier factory on z3-backed integers (all feasible paths) + NIA/LIA queries over symbolic operand codes",
        text="For every ordered pair of operand kinds the real MultiplierFactory / multiplier_impl classes run on symbolic (bits, int_bits, "
             "signedness); the solver decides per path that no pair of operand codes has a product outside the reported output type, and "
             "that implemented_as() is the kind the operands call for.  Bounded by bits <= 16 (po2 <= 6).",
        note="Trusted: z3, the proxy/shim layer of vf.pysym, the value-set semantics of vf.qtypes.  The link from real qkeras quantizers "
             "to qtools types (convert_qkeras_quantizer/get_exp) is a finite enumeration, reported as auxiliary; the multiplier entries of the real QTools "
             "data-type map (four real models, legacy Keras attributes stubbed) are checked with the same clause.",
        ref="DESIGN.md section 3 C16"),
    "C17": dict(
        level="model_checking", engine="pysym",
        technique="symbolic execution of the real accumulator/adder/merge sizing code on z3-backed integers (N symbolic up to 2^20) + LIA queries over symbolic sums",
        text="The real AccumulatorFactory, IAdder and MergeFactory(Add) code runs on symbolic type parameters and a symbolic kernel size; the "
             "solver decides per path that every sum of N summand codes (two/three operand codes) is a code of the reported type and that "
             "widening a fixed-point adder operand never narrows the result.",
        note="Trusted as C16 plus the ceil(log2 n) contract.  Maximum/Concatenate/Average/Multiply/Dot merges are outside the claim.",
        ref="DESIGN.md section 3 C17"),
    "C06": dict(
        level="model_checking", engine="tfg2smt",
        technique="bounded SMT (QF_BVFP) over the gradient graph TensorFlow autodiff builds from the real quantizer, compared with the surrogate's derivative for all inputs",
        text="x -> d q(x)/dx is traced through tf.GradientTape, translated op by op and compared for every finite float32 input (minus the "
             "kinks of the surrogate) with a harness-side derivative; identical terms are discharged by hash-consing, the others by the "
             "solver, each with a finiteness query.",
        note="Trusted as C01 plus the gradient-op semantics (ReluGrad, LeakyReluGrad, TanhGrad, Select/Min/Max gradients) validated against "
             "eager autodiff on every run.  Quantizers outside the property's catalogue (tanh/sigmoid/ulaw/hswish/bernoulli) are not covered.  Data-dependent scales on two-element "
             "tensors: off-diagonal Jacobian entries by the solver, diagonal entries on probe tensors (auxiliary).",
        ref="DESIGN.md section 3 C06"),
    "C07": dict(
        level="model_checking", engine="tfg2smt",
        technique="bounded SMT over the variable-backed quantizer graph with qnoise_factor as a second symbolic input (opaque product with sound lemmas); "
                  "scheduler code executed symbolically (z3 LIA/LRA) with one inductive step",
        text="Quantizers are traced in variable-backed mode so the factor f is a graph input; the solver decides for all (x,f) the f=0, f=1 and "
             "general mixing clauses and the equality of constructor/update-API/variable-backed objects.  QNoiseScheduler's Python code runs "
             "on z3-backed values: range, end points, monotonicity and one inductive update step for both hook routes.",
        note="Trusted: as C01/C03; products with the symbolic factor are opaque values constrained by lemmas valid for every IEEE "
             "multiplication; np.power contract.  get_quantizers runs on stand-in layers whose quantizers hold symbolic factors "
             "(all paths) and, as an auxiliary, on one real model.  Data-dependent scales: end-point clauses only, on a two-element tensor.",
        ref="DESIGN.md section 3 C07"),
    "C09": dict(
        level="translation_validation", engine="equiv",
        technique="graph equivalence of the traced original and rebuilt quantizer: hash-consed term identity, z3 real relaxation for witnesses, QF_BVFP miter",
        text="Each configuration of the option lattice is rebuilt through from_config, get_quantizer(dict) and Keras serialize/deserialize "
             "(executed concretely; success is part of the property); the original and the rebuilt object are then traced on the same "
             "symbolic tensor and their output and scale terms are proved equal for every input (or a replayed distinguishing input is reported).",
        note="Programs (configurations) are enumerated; inputs are universally quantified.  Stochastic paths need a K.learning_phase stub "
             "(absent under the pinned Keras) and share symbolic random draws.",
        ref="DESIGN.md section 3 C09"),
    "C10": dict(
        level="translation_validation", engine="equiv",
        technique="graph equivalence of the traced quantizer and the quantizer re-parsed from its own str() (term identity / relaxation / QF_BVFP miter); "
                  "safe_eval.GetArg executed on a z3 string (tokens <= 8 chars) against Python literal semantics; argument-list splitting compared with Python "
                  "evaluation on an enumerated list",
        text="For every configuration of the option lattice str(q) is parsed back through the real get_quantizer/safe_eval and both objects "
             "are traced on one symbolic tensor: equality for every input is proved by term identity (or the exact miter), differences are "
             "replayed.  In the text->arguments direction GetArg is executed symbolically on a bounded z3 string per literal class; the split of "
             "an argument list into items is an auxiliary enumeration, not a solver verdict (pyparsing / CrossHair limits).",
        note="Only the str(q) direction is claimed at solver level.  21 (class, option) pairs whose printed form loses the option are known findings.",
        ref="DESIGN.md section 3 C10"),
    "C11": dict(
        level="translation_validation", engine="equiv",
        technique="graph equivalence (term identity / real relaxation / QF_BVFP miter) between the traced quantized layer and the traced stock Keras layer on q_i(w_i), "
                  "with symbolic inputs and weights; linear-operator structure extracted from the real TF kernels",
        text="For each (layer type, geometry, quantizer assignment) the quantized layer's call() and the stock layer's call() on the reported "
             "quantizers applied to the same symbolic weights are traced into one hash-consed term store; equality for every input and "
             "every weight value is proved by term identity (the expected outcome) or the miter, and differences are replayed.",
        note="Layer classes that cannot be built or called under the pinned Keras 3 (QConv2DTranspose, recurrent layers) are outside the claim.",
        ref="DESIGN.md section 3 C11"),
    "C12": dict(
        level="translation_validation", engine="equiv",
        technique="model_quantize executed on an enumerated (model, dictionary) family; every converted layer proved equal, for all inputs and weights, to the directly "
                  "constructed expected layer by graph equivalence (term identity / real relaxation / QF_BVFP miter)",
        text="Programs (5 model templates x a generated dictionary family x activation_bits x transfer_weights) are enumerated; topology, names, "
             "classes, shapes, hyper-parameters, untouched layers, transferred weights and the caller's objects are compared concretely; the "
             "functional statement per converted layer is decided for all inputs and weight values by engine C.",
        note="The expected layer is built by the harness from the property's wording, not from utils.get_config.  Conversions whose target class "
             "cannot be constructed under the pinned Keras 3 are outside the claim.",
        ref="DESIGN.md section 3 C12"),
    "C13": dict(
        level="translation_validation", engine="equiv",
        technique="JSON / clone_model / HDF5 round trips executed concretely; every original/rebuilt layer pair proved equal for all inputs and weights by graph equivalence",
        text="Generated quantized models (5 templates, one holding a QAdaptiveActivation, x seeded quantizer assignments over weight/activation/bias quantizer option pools) go through "
             "the three routes; success, topology, reported quantizers, restored weights and eager predictions are compared concretely and each "
             "layer pair is traced with shared symbolic input and weights: identical terms prove bit-identical behaviour for every value.",
        note="Layer classes that cannot be constructed under the pinned Keras 3 are outside the claim; graph-mode predict is not what is compared.",
        ref="DESIGN.md section 3 C13"),
    "C04": dict(
        level="model_checking", engine="tfg2smt",
        technique="bounded SMT (QF_BVFP) for the element-wise codes and for sign/finiteness/power-of-two facts about the scale; term structure for scale groups; "
                  "z3 real arithmetic for the least-squares identity with the graph's code terms as cut points",
        text="Element-wise: for every float32 input in the exactness region the output is scale*code with the sign / threshold rule.  "
             "Data-dependent scale: the traced graph is interpreted over arrays of named scalar terms (rank 1..4, <= 8 elements): one scale per "
             "configured group is decided on the terms, the least-squares optimum over the reals, scale >= 0 / finite / exact power of two "
             "within bounds as floating-point queries on the smallest shapes.",
        note="The least-squares clause is a statement over the reals (float rounding of the quotient is outside the claim); ternary's data-dependent "
             "thresholds are cut at the emitted codes.",
        ref="DESIGN.md section 3 C04"),
    "C05": dict(
        level="model_checking", engine="tfg2smt",
        technique="bounded SMT (QF_BVFP) with a cut at the exposed scale: final stage for every power-of-two scale (symbolic second input), scale lemmas on two-element "
                  "channels, induction over the refinement rounds with the previous working scale as cut point",
        text="(F) out = scale x in-range integer code for every power-of-two scale 2^j, |j|<=20, through the real frozen-scale branch; (A) 'auto': finite, "
             "positive scale, channel maximum not clipped; (P) 'auto_po2': exposed scale is an exact power of two within the exponent bounds, proved "
             "round by round with an invariant; (S) one scale per channel/group on the term structure.",
        note="The scale-equivariance clause is NOT covered.  The auto_po2 final-stage claim is conditional on |x| < 2^20 units of the chosen scale.",
        ref="DESIGN.md section 3 C05"),
    "C19": dict(
        level="model_checking", engine="pysym",
        technique="symbolic execution of get_operation_count / energy-sum extraction / memory energy functions on z3-backed geometry and energies (NIA/NRA queries)",
        text="get_operation_count runs on stand-in layers with symbolic geometry and the solver decides equality with the loop-nest count for all "
             "geometries in the bounds; extract_energy_sum/profile run on a symbolic energy dictionary; memory energies are non-negative.",
        note="QTools.pe()/energy_estimate run end to end on five real models only as an auxiliary concrete part (legacy Keras attributes stubbed, "
             "vf/legacy_keras.py); extract_model_operations is outside the claim.",
        ref="DESIGN.md section 3 C19"),
    "C08": dict(
        level="model_checking", engine="tfg2smt",
        technique="bounded SMT (QF_BVFP) over the graph traced under a learning-phase stub with the uniform draw as a free symbolic value; inference side by graph equivalence",
        text="Training phase: for all (x, r) the output is the floor- or ceil-code of the clipped surrogate, codes are unchanged, and the upper code "
             "is chosen exactly when r <= frac (threshold form of unbiasedness); for the power-of-two family the output is one of the two enclosing powers "
             "of two, codes are unchanged and the threshold holds up to 2^-22.  Inference phase: the graph of every stochastic configuration / "
             "stochastic_* class is proved equal to its deterministic counterpart.",
        note="K.learning_phase does not exist under the pinned Keras 3 and is stubbed; binary / ternary training-phase distributions are "
             "not covered.",
        ref="DESIGN.md section 3 C08"),
    "C18": dict(
        level="model_checking", engine="pysym",
        technique="symbolic execution of estimate.analyze_accumulator on real layer objects with z3-backed weights and input range (all feasible paths, NRA queries on the "
                  "exact worst case); LIA queries over the types the real QTools pipeline reports for real models (legacy Keras attributes stubbed)",
        text="Estimator: for every path of analyze_accumulator (signs of the weights are decided by forking) the solver searches an input in the range whose "
             "pre-activation exceeds 2^size.  Data-type map: QTools(model) runs on four small real models; per weight layer the solver decides that every sum of "
             "fan-in products of an input-type value and a weight-type value (times every recorded auto_po2 scale) plus a bias-type value is a value of the "
             "reported (scale-adjusted) accumulator type.",
        note="QTools needs six legacy Keras attributes that the pinned Keras 3 lacks (KerasTensor.ref/get_shape, Layer.output_shape/input_shape/get_output_at/"
             "get_input_at): supplied as environment stubs (vf/legacy_keras.py).  Models are enumerated; values are universally quantified.  Batch-norm fused "
             "entries and analyze_accumulator_from_sample are not covered.",
        ref="DESIGN.md section 3 C18"),
    "C20": dict(
        level="model_checking", engine="pysym",
        technique="symbolic execution of AutoQKHyperModel._get_quantizer (symbolic bit widths and limits, nondeterministic tuner), ForgivingFactor.delta and the "
                  "ForgivingFactorBits size model on z3-backed reals/ints (LIA/NRA/NIA queries); exhaustive enumeration of small search spaces through quantize_model (auxiliary)",
        text="search space: on every path of _get_quantizer the chosen quantizer's bits are within the limit (or its name in the allowed list), classes "
             "without a limit entry stay unquantized, layers matching one pattern share one choice; delta: zero at equal sizes, strictly decreasing in the "
             "trial size (two symbolic trials), positive below / negative above the reference; size model: parameters and activations equal elements x "
             "bits of the applied quantizer (reference width where none), reference = stress x size, every get_trial reports the model it was given.",
        note="keras_tuner cannot be imported under the pinned environment and is replaced by a stub module (four names); the tuner object is a "
             "nondeterministic stub.  Filter tuning, recurrent / separable layers and the learning-rate option of the hyper-model are not exercised.",
        ref="DESIGN.md section 3 C20"),
}

CHECKS["C15"] = dict(
    level="translation_validation", engine="equiv",
    technique="graph equivalence of the traced folded layer (real __init__/build/call/get_folded_weights, legacy BatchNormalization surface stubbed) "
              "with stock convolution + batch normalisation: hash-consed term identity, z3 real arithmetic with uninterpreted quantizers",
    text="Per configuration the folded layer's call(training=False) is traced with input, kernel, bias, gamma, beta, moving mean and moving "
         "variance all symbolic and proved equal to the stock Keras-3 convolution applied to q_k/q_b of the layer's own folded weights (term "
         "identity, else exact arithmetic with quantizers as uninterpreted functions); get_folded_weights() is proved equal to the "
         "property's closed formulas and the unquantized layer equal to stock convolution followed by stock BatchNormalization over the "
         "reals (z3); counterexamples are replayed on the real layers.",
    note="Layer-level clauses only, inference mode only.  The folded layers cannot be constructed under the pinned Keras 3 (its "
         "BatchNormalization rejects the legacy arguments): the check supplies the legacy attribute surface as an environment stub (BNShim) "
         "inside the two modules while it runs.  The plain layer built by convert_folded_layer_to_unfolded is proved equal to conv(q(K')) + q(B') with the folded "
         "layer's quantizers; unfold_model runs end to end on five one-layer models (auxiliary).  convert_to_folded_model / model_quantize(enable_bn_folding) are NOT covered.  Formula and conv+BN clauses are equalities over the reals (rounding outside the claim).",
    ref="DESIGN.md section 3 C15")

CHECKS["C14"] = dict(
    level="model_checking", engine="pysym",
    technique="symbolic execution of the real model_save_quantized_weights on a model proxy with z3-backed weights (all feasible paths), quantizer calls replaced "
              "by their value-set contracts (assume-guarantee with C01/C03/C05); NRA/NIA queries with finite power-of-two tables; replay on the real export",
    text="On every path of the export the solver decides: each quantized layer receives exactly [q_i(w_i)] through one set_weights call; dictionary entries of "
         "ordinary quantizers are the stored weights; sign * 2^exponent rebuilds *_po2 weights (sign in {-1,+1}); scale * integer weight rebuilds "
         "quantized_bits(alpha='auto_po2') weights with integers inside the declared bit range.  Counterexamples are replayed on the real export of a real "
         "Keras-3 model (legacy Keras attributes stubbed).",
    note="The last two clauses fail on the unchanged tree (two known findings, one root cause: the exported integer weight keeps the scale).  Not covered: "
         "batch-norm fusing, pooling and folded-layer entries, the hdf5 file, 'predictions unchanged / second export changes nothing' (they follow from the "
         "quantizers' idempotence, C02/C03/C05), clone_model_and_freeze_auto_po2_scale.  Weight tensors have 1-4 elements.",
    ref="DESIGN.md section 3 C14")

NOT_YET = "check not built yet in this revision (see DESIGN.md section 7 build order)"
NOT_APPLICABLE = {
}


def main():
  props = [json.loads(l)["id"] for l in open(os.path.join(ROOT, "properties.jsonl"))]
  checks = []
  for pid in props:
    c = CHECKS.get(pid)
    if not c:
      continue
    checks.append(dict(
        property_id=pid,
        quick_cmd="./check %s --tier quick" % pid,
        thorough_cmd="./check %s --tier thorough" % pid,
        evidence_file="evidence/%s.json" % pid,
        replay_cmd_template="./check %s --replay {path}" % pid,
        engine=c["engine"],
        level_claimed=dict(category=c["level"], text=c["text"], design_ref=c["ref"]),
        level_note=c["note"],
        technique=c["technique"]))
  na = []
  for pid in props:
    if pid in CHECKS:
      continue
    na.append(dict(property_id=pid, reason=NOT_APPLICABLE.get(pid, NOT_YET)))
  m = dict(
      version=1,
      setup_cmd="bash setup.sh",
      hooks=dict(guard="GOOGLE_QKERAS_VERIF", enable="no hooks are compiled in: checks import /repo's working tree directly (PYTHONPATH=/repo) with the guard unset",
                 baseline_off_cmd="cd /repo && /venv/bin/python -m pytest -ra -q -p no:cacheprovider --timeout=900 --continue-on-collection-errors",
                 source_commits=[], add_only=True),
      engines=[
          dict(name="tfg2smt", path="vf/tfg.py", serves_properties=[p for p in props if CHECKS.get(p, {}).get("engine") == "tfg2smt"],
               kind_free_text="TensorFlow graph (traced from the real code on every run) -> SMT-LIB QF_BVFP with FTZ/DAZ platform model; cvc5 primary, z3 cross-check"),
          dict(name="pysym", path="vf/pysym.py", serves_properties=[p for p in props if CHECKS.get(p, {}).get("engine") == "pysym"],
               kind_free_text="symbolic execution of the real pure-Python numeric code on z3-backed proxy values, all feasible paths"),
          dict(name="equiv", path="vf/equiv.py", serves_properties=[p for p in props if CHECKS.get(p, {}).get("engine") == "equiv"],
               kind_free_text="graph equivalence (hash-consing, real-arithmetic relaxation for counterexamples, QF_BVFP miter with opaque linear operators)"),
      ],
      checks=checks,
      not_applicable=na,
      notes="All checks: exit 0 = every obligation unsat (and reachability twins sat); exit 1 = replay-confirmed violation not listed in "
            "known_findings.json; exit 2 = inconclusive (timeout / unknown / translator mismatch / unconfirmed counterexample).")
  with open(os.path.join(ROOT, "MANIFEST.json"), "w") as f:
    json.dump(m, f, indent=1)
  print("MANIFEST.json: %d checks, %d not applicable" % (len(checks), len(na)))


if __name__ == "__main__":
  main()
