#!/bin/bash
# Offline: overlay venv on /venv (the repository's interpreter) + solver wheels from the local wheelhouse.
set -e
HERE="$(cd "$(dirname "$0")" && pwd)"
V="$HERE/.venv"
if [ -x "$V/bin/python" ] && "$V/bin/python" -c "import z3, cvc5" 2>/dev/null; then exit 0; fi
rm -rf "$V"
/venv/bin/python -m venv "$V"
SP="$("$V/bin/python" -c 'import sysconfig;print(sysconfig.get_paths()["purelib"])')"
echo "import site; site.addsitedir('/venv/lib/python3.12/site-packages')" > "$SP/_base.pth"
PIP_NO_INDEX=1 "$V/bin/pip" install -q --no-index --find-links /opt/veriftools/wheels z3-solver cvc5
"$V/bin/python" -c "import z3, cvc5, tensorflow; print('verif venv ready', z3.get_version_string(), cvc5.__version__)"
