import os
os.environ['TF_CPP_MIN_LOG_LEVEL']='3'
import numpy as np, tensorflow as tf, collections
from qkeras import *
import tensorflow.keras as keras
def tr(layer, names, shapes, xshape):
    @tf.function
    def f(x,*ws):
        for n,w in zip(names,ws):
            object.__setattr__(layer, n, w)
        return layer.call(x)
    return f.get_concrete_function(tf.TensorSpec(xshape,tf.float32), *[tf.TensorSpec(s,tf.float32) for s in shapes])
def show(name, cf):
    g=cf.graph
    print(name, dict(collections.Counter(op.type for op in g.get_operations() if op.type in('MatMul','Conv2D','BiasAdd','DepthwiseConv2dNative','AvgPool','Mean','Sum','AddV2','Reshape','ExpandDims','Squeeze','Conv2DBackpropInput','Transpose'))))
qb="quantized_bits(4,0,1)"
def t(name, f):
    try: f()
    except Exception as e: print("ERR",name,type(e).__name__,str(e)[:300].replace("\n"," "))
def dense():
    l=QDense(3,kernel_quantizer=qb,bias_quantizer=qb,activation="quantized_relu(4)"); l.build((None,5))
    show("QDense",tr(l,['_kernel','bias'],[(5,3),(3,)],(2,5)))
    r=keras.layers.Dense(3); r.build((None,5))
    show("Dense",tr(r,['_kernel','bias'],[(5,3),(3,)],(2,5)))
t("dense",dense)
def conv2d():
    l=QConv2D(2,3,strides=2,padding='same',dilation_rate=1,kernel_quantizer=qb,bias_quantizer=qb); l.build((None,6,6,3))
    cf=tr(l,['_kernel','bias'],[(3,3,3,2),(2,)],(1,6,6,3)); show("QConv2D",cf)
    print([ (op.type, {k:op.get_attr(k) for k in ('strides','padding','dilations','data_format','explicit_paddings')}) for op in cf.graph.get_operations() if op.type=='Conv2D'])
    r=keras.layers.Conv2D(2,3,strides=2,padding='same'); r.build((None,6,6,3))
    cf=tr(r,['_kernel','bias'],[(3,3,3,2),(2,)],(1,6,6,3)); show("Conv2D",cf)
    print([ (op.type, {k:op.get_attr(k) for k in ('strides','padding','dilations','data_format','explicit_paddings')}) for op in cf.graph.get_operations() if op.type=='Conv2D'])
t("conv2d",conv2d)
def dw():
    l=QDepthwiseConv2D(3,depthwise_quantizer=qb,bias_quantizer=qb); l.build((None,6,6,3))
    print([w.path for w in l.weights], [k for k in l.__dict__ if 'kernel' in k or 'bias' in k])
t("dw",dw)
def sep():
    l=QSeparableConv2D(2,3,depthwise_quantizer=qb,pointwise_quantizer=qb,bias_quantizer=qb); l.build((None,6,6,3))
    print([w.path for w in l.weights], [k for k in l.__dict__ if 'kernel' in k or 'bias' in k])
t("sep",sep)
def c1():
    l=QConv1D(2,3,padding='causal',kernel_quantizer=qb,bias_quantizer=qb); l.build((None,6,3))
    cf=tr(l,['_kernel','bias'],[(3,3,2),(2,)],(1,6,3)); show("QConv1D",cf)
t("c1",c1)
def pool():
    l=QAveragePooling2D(2,average_quantizer=qb); 
    f=tf.function(lambda x:l.call(x)).get_concrete_function(tf.TensorSpec((1,4,4,2),tf.float32)); show("QAvgPool",f)
    print(collections.Counter(op.type for op in f.graph.get_operations()))
t("pool",pool)
# serialization
from qkeras import quantizers as Q
def ser():
    q=Q.quantized_bits(4,1,1)
    s=keras.utils.serialize_keras_object(q); print("serialize:", s)
    q2=Q.get_quantizer(s); print("deser:", q2)
t("ser",ser)
def ser2():
    from tensorflow.keras import constraints
    q=Q.quantized_bits(4,1,1)
    s=constraints.serialize(q); print("constraints.serialize:", s)
    print(Q.get_quantizer(s))
t("ser2",ser2)
def ser3():
    q=Q.quantized_bits(4,1,1)
    print(Q.get_quantizer({"class_name":"quantized_bits","config":q.get_config()}))
t("ser3",ser3)
