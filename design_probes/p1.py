import z3, time, sys
F=z3.Float32(); RNE=z3.RNE()
def c(v): return z3.FPVal(v,F)
def qb(x,bits,integer,keep_negative=1,symmetric=0):
    ub=bits-keep_negative
    m=c(2.0**ub); mi=c(2.0**integer)
    p=z3.fpDiv(RNE,z3.fpMul(RNE,x,m),mi)
    r=z3.fpRoundToIntegral(RNE,p)
    # _round_through: p + (-p + r)
    r2=z3.fpAdd(RNE,p,z3.fpAdd(RNE,z3.fpNeg(p),r))
    lo=c(keep_negative*(-(2.0**ub)+symmetric)); hi=c(2.0**ub-1)
    cl=z3.fpMin(z3.fpMax(r2,lo),hi)
    xq=z3.fpDiv(RNE,z3.fpMul(RNE,mi,cl),m)
    xq=z3.fpMul(RNE,c(1.0),xq)
    out=z3.fpAdd(RNE,x,z3.fpMul(RNE,c(1.0),z3.fpAdd(RNE,z3.fpNeg(x),xq)))
    return out,lo,hi,m,mi
bits=int(sys.argv[1]); integer=int(sys.argv[2])
x=z3.FP('x',F)
out,lo,hi,m,mi=qb(x,bits,integer)
step=2.0**(integer-(bits-1))
s=z3.Solver()
s.add(z3.Not(z3.fpIsNaN(x)),z3.Not(z3.fpIsInf(x)))
s.add(z3.fpLT(z3.fpAbs(x),c(2.0**24*step)))
# property: out/step is integral and within [lo,hi]
k=z3.fpDiv(RNE,out,c(step))
bad=z3.Or(z3.Not(z3.fpEQ(z3.fpRoundToIntegral(RNE,k),k)), z3.fpLT(k,lo), z3.fpGT(k,hi))
s.add(bad)
r="skip"
if str(r)=='sat': print(s.model())
open(f'p1_{bits}_{integer}.smt2','w').write("(set-logic QF_FP)\n"+s.sexpr()+"(check-sat)\n")
