# array-capable prototype translator (object arrays of SMT-LIB term strings)
import os, sys, time, subprocess, collections
os.environ['TF_CPP_MIN_LOG_LEVEL']='3'
import numpy as np, tensorflow as tf
from qkeras import quantizers as Q
from tensorflow.python.framework import tensor_util
FP="(_ FloatingPoint 8 24)"
def fp_const(v):
    v=np.float32(v); b=int(np.frombuffer(v.tobytes(),dtype=np.uint32)[0]); return f"((_ to_fp 8 24) #x{b:08x})"
class Ctx:
    def __init__(s): s.decl=[]; s.asrt=[]; s.n=0; s.memo={}
    def fresh(s,sort):
        s.n+=1; n=f"v{s.n}"; s.decl.append(f"(declare-const {n} {sort})"); return n
    def name(s,e,sort=FP):
        if e in s.memo: return s.memo[e]
        if len(e)<40: return e
        n=s.fresh(sort); s.asrt.append(f"(= {n} {e})"); s.memo[e]=n; return n
def ftz(C,e):
    r=C.name(e); return C.name(f"(ite (fp.isSubnormal {r}) (ite (fp.isNegative {r}) (_ -zero 8 24) (_ +zero 8 24)) {r})")
class T:  # tagged scalar term
    __slots__=('e','b')
    def __init__(s,e,b=False): s.e=e; s.b=b
def lift(v):
    if isinstance(v,np.ndarray) and v.dtype==object: return v
    v=np.asarray(v)
    out=np.empty(v.shape,dtype=object)
    for idx in np.ndindex(v.shape):
        x=v[idx]
        out[idx]=T('true' if x else 'false',True) if v.dtype==np.bool_ else T(fp_const(x))
    return out
def is_sym(v): return isinstance(v,np.ndarray) and v.dtype==object
def ew(C,f,*arrs):
    arrs=[lift(a) for a in arrs]; bs=np.broadcast(*arrs); out=np.empty(bs.shape,dtype=object)
    bc=[np.broadcast_to(a,bs.shape) for a in arrs]
    for idx in np.ndindex(bs.shape): out[idx]=f(*[a[idx] for a in bc])
    return out
def translate(C, cf, inputs, stubs=None):
    g=cf.graph; val={}
    ph=[op for op in g.get_operations() if op.type=='Placeholder']
    for op,i in zip(ph,inputs): val[op.outputs[0].name]=i
    B=lambda op: (lambda a,b: T(ftz(C,f"({op} RNE {ftz(C,a.e)} {ftz(C,b.e)})")))
    for op in g.get_operations():
        if op.type=='Placeholder': continue
        ins=[val[t.name] for t in op.inputs]; t=op.type
        if t=='Const': val[op.outputs[0].name]=tensor_util.MakeNdarray(op.get_attr('value')); continue
        if not any(is_sym(i) for i in ins):
            if t in('Identity','StopGradient'): r=[ins[0]]
            else:
                with tf.device('/cpu:0'):
                    fn=getattr(tf.raw_ops,t)
                    kw={a.name:tf.constant(v) for a,v in zip(op.op_def.input_arg,ins)} if not any(a.number_attr for a in op.op_def.input_arg) else {op.op_def.input_arg[0].name:[tf.constant(v) for v in ins[:-1]] , op.op_def.input_arg[1].name:tf.constant(ins[-1])} if t=='ConcatV2' else {op.op_def.input_arg[0].name:[tf.constant(v) for v in ins]}
                    at={a.name:op.get_attr(a.name) for a in op.op_def.attr if a.type not in('type',) and a.name not in('N',)}
                    for a in op.op_def.attr:
                        if a.type=='type' and a.name in('DstT','dtype','out_type','Tidx','output_type'): at[a.name]=op.get_attr(a.name)
                    try: r=fn(**kw,**at)
                    except TypeError:
                        at={k:v for k,v in at.items() if k not in('Tidx','out_type')}; r=fn(**kw,**at)
                r=[x.numpy() for x in (r if isinstance(r,(list,tuple)) else [r])]
            for o,x in zip(op.outputs,r): val[o.name]=x
            continue
        if t in('Mul','AddV2','Sub','RealDiv'):
            r=ew(C,B({'Mul':'fp.mul','AddV2':'fp.add','Sub':'fp.sub','RealDiv':'fp.div'}[t]),*ins)
        elif t=='Neg': r=ew(C,lambda a:T(f"(fp.neg {a.e})"),*ins)
        elif t=='Abs': r=ew(C,lambda a:T(f"(fp.abs {a.e})"),*ins)
        elif t=='Round': r=ew(C,lambda a:T(C.name(f"(fp.roundToIntegral RNE {ftz(C,a.e)})")),*ins)
        elif t=='Floor': r=ew(C,lambda a:T(C.name(f"(fp.roundToIntegral RTN {ftz(C,a.e)})")),*ins)
        elif t=='Maximum': r=ew(C,lambda a,b:T(C.name(f"(fp.max {a.e} {b.e})")),*ins)
        elif t=='Minimum': r=ew(C,lambda a,b:T(C.name(f"(fp.min {a.e} {b.e})")),*ins)
        elif t in('Identity','StopGradient'): r=ins[0]
        elif t=='Sign': r=ew(C,lambda a:T(C.name(f"(ite (fp.isZero {ftz(C,a.e)}) (_ +zero 8 24) (ite (fp.isNegative {a.e}) {fp_const(-1)} {fp_const(1)}))")),*ins)
        elif t in('Less','LessEqual','Greater','GreaterEqual'):
            o={'Less':'fp.lt','LessEqual':'fp.leq','Greater':'fp.gt','GreaterEqual':'fp.geq'}[t]
            r=ew(C,lambda a,b:T(f"({o} {a.e} {b.e})",True),*ins)
        elif t=='SelectV2': r=ew(C,lambda c,a,b:T(C.name(f"(ite {c.e} {a.e} {b.e})")),*ins)
        elif t=='Cast': r=ew(C,lambda a:T(f"(ite {a.e} {fp_const(1)} {fp_const(0)})") if a.b else a,*ins)
        elif t in('Mean','Sum','Max'):
            x=ins[0]; ax=tuple(int(i)%x.ndim for i in np.atleast_1d(ins[1])); keep=op.get_attr('keep_dims')
            red=lambda a,b: (B('fp.add')(a,b) if t!='Max' else T(C.name(f"(fp.max {a.e} {b.e})")))
            xm=np.moveaxis(x,ax,range(len(ax))); xm=xm.reshape((-1,)+xm.shape[len(ax):]) if xm.ndim>len(ax) else xm.reshape((-1,))
            acc=xm[0]
            for k in range(1,xm.shape[0]): acc=ew(C,red,acc,xm[k]) if isinstance(acc,np.ndarray) else red(acc,xm[k])
            acc=np.asarray(acc,dtype=object) if isinstance(acc,np.ndarray) else np.array(acc,dtype=object).reshape(())
            if t=='Mean': acc=ew(C,B('fp.div'),acc,np.float32(xm.shape[0]))
            if keep:
                shp=[1 if i in ax else s for i,s in enumerate(x.shape)]; acc=acc.reshape(shp)
            r=acc
        elif t=='Reshape': r=ins[0].reshape([int(i) for i in ins[1]])
        elif t=='Log':
            def lg(a):
                L=C.fresh(FP); stubs.append(('Log',a.e,L)); return T(L)
            r=ew(C,lg,*ins)
        elif t=='Pow':
            def pw(a,b):
                L=C.fresh(FP); stubs.append(('Pow',a.e,b.e,L)); return T(L)
            r=ew(C,pw,*ins)
        else: raise NotImplementedError(t)
        val[op.outputs[0].name]=r
    return [val[o.name] for o in cf.outputs], val
if __name__=='__main__':
    shape=(2,2)
    q=Q.binary(alpha='auto')
    cf=tf.function(lambda x:q(x)).get_concrete_function(tf.TensorSpec(shape,tf.float32))
    C=Ctx(); stubs=[]
    X=np.empty(shape,dtype=object)
    for idx in np.ndindex(shape): X[idx]=T("x"+"_".join(map(str,idx)))
    (out,),val=translate(C,cf,[X],stubs)
    scale_name=q.scale.name; S=val[scale_name]; print("scale tensor",scale_name,S.shape)
    hdr="(set-logic QF_BVFP)\n"+"".join(f"(declare-const b{x.e} (_ BitVec 32))\n(define-fun {x.e} () {FP} ((_ to_fp 8 24) b{x.e}))\n" for x in X.reshape(-1))
    dom="".join(f"(assert (not (fp.isNaN {x.e}))) (assert (not (fp.isInfinite {x.e}))) (assert (fp.lt (fp.abs {x.e}) {fp_const(2.0**60)})) (assert (or (fp.isZero {x.e}) (fp.geq (fp.abs {x.e}) {fp_const(2.0**-60)})))\n" for x in X.reshape(-1))
    # property: every scale element >= 0 and finite; out[i,j] == +-scale[0,j]
    bad=" ".join(f"(fp.isNegative {s.e}) (fp.isNaN {s.e}) (fp.isInfinite {s.e})" for s in S.reshape(-1))
    bad+=" "+" ".join(f"(not (or (fp.eq {out[i,j].e} {S[0,j].e}) (fp.eq {out[i,j].e} (fp.neg {S[0,j].e}))))" for i in range(2) for j in range(2))
    smt=hdr+"\n".join(C.decl)+"\n"+"\n".join(f"(assert {a})" for a in C.asrt)+"\n"+dom+f"(assert (or {bad}))\n(check-sat)\n(get-model)\n"
    open('c04.smt2','w').write(smt); print(len(smt),'bytes', len(C.decl),'decls')
    t=time.time(); r=subprocess.run(['cvc5','--produce-models','c04.smt2'],capture_output=True,text=True,timeout=3000)
    print(r.stdout.strip()[:600].replace('\n',' '), r.stderr[:200], round(time.time()-t,1),'s')
