import os, sys, time, subprocess
os.environ['TF_CPP_MIN_LOG_LEVEL']='3'
src=open(os.path.join(os.path.dirname(os.path.abspath(__file__)),'p9.py')).read()
exec(src.split("q=Q.quantized_po2(")[0])
bits=int(sys.argv[1]); integer=int(sys.argv[2]); mode=sys.argv[3]
q=Q.quantized_bits(bits,integer,0)
cf=tf.function(lambda x:q(x)).get_concrete_function(tf.TensorSpec((1,),tf.float32))
stepk=integer-(bits-1)
hdr="(set-logic QF_BVFP)\n(declare-const xb (_ BitVec 32))\n(declare-const yb (_ BitVec 32))\n(define-fun x () (_ FloatingPoint 8 24) ((_ to_fp 8 24) xb))\n(define-fun y () (_ FloatingPoint 8 24) ((_ to_fp 8 24) yb))\n"
dom=lambda v: f"(assert (not (fp.isNaN {v}))) (assert (fp.lt (fp.abs {v}) {fp_const(2.0**(24+stepk))}))"
if mode=='mono':
    o1,=translate(cf,[Sym('x')]); o2,=translate(cf,[Sym('y')])
    prop=f"{dom('x')} {dom('y')} (assert (fp.leq x y)) (assert (not (fp.leq {o1.e} {o2.e})))"
elif mode=='idem':
    o1,=translate(cf,[Sym('x')]); o2,=translate(cf,[o1])
    prop=f"{dom('x')} (assert (not (fp.eq {o1.e} {o2.e})))"
elif mode=='near':
    o1,=translate(cf,[Sym('x')])
    h=fp_const(2.0**(stepk-1)); mx=fp_const((2**(bits-1)-1)*2.0**stepk); mn=fp_const(-(2**(bits-1))*2.0**stepk)
    prop=f"""{dom('x')} (define-fun o () (_ FloatingPoint 8 24) {o1.e})
(assert (not (and (=> (and (fp.leq (fp.sub RNE {mn} {h}) x) (fp.leq x (fp.add RNE {mx} {h}))) (and (fp.leq (fp.sub RNE o {h}) x) (fp.leq x (fp.add RNE o {h}))))
 (=> (fp.geq x (fp.add RNE {mx} {h})) (fp.eq o {mx})) (=> (fp.leq x (fp.sub RNE {mn} {h})) (fp.eq o {mn})))))"""
smt=hdr+"\n".join(DECLS)+"\n"+"\n".join(f"(assert {a})" for a in ASSERTS)+"\n"+prop+"\n(check-sat)\n(get-value (xb yb))\n"
open(f'c02_{mode}.smt2','w').write(smt)
t=time.time(); r=subprocess.run(['cvc5','--produce-models',f'c02_{mode}.smt2'],capture_output=True,text=True,timeout=3000)
print(sys.argv[1:], r.stdout.strip()[:200].replace('\n',' '), round(time.time()-t,1),'s')
