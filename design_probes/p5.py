import os
os.environ['TF_CPP_MIN_LOG_LEVEL']='3'
import numpy as np, tensorflow as tf, collections
from qkeras import *
from qkeras import quantizers as Q
import tensorflow.keras as keras
# (1) denormals
x=tf.constant([1e-40, 2**-130, 2**-126, 0.0, -0.0],dtype=tf.float32)
print("denorm mul", (x*tf.constant(0.5)).numpy(), (x+x).numpy(), tf.abs(x).numpy())
print("pow denorm", tf.pow(2.0, tf.constant([-127.,-128.,-140.,-149.,-150., 127., 128.])).numpy())
f=tf.function(lambda x: x*0.5); print("graph denorm", f(x).numpy())
print("round ties", tf.round(tf.constant([0.5,1.5,2.5,-0.5,-1.5])).numpy())
print("sign -0", tf.sign(tf.constant([-0.0,0.0])).numpy(), np.signbit(tf.sign(tf.constant([-0.0,0.0])).numpy()))
print("max(-0,0)", np.signbit(tf.maximum(tf.constant(-0.0),tf.constant(0.0)).numpy()), np.signbit(tf.maximum(tf.constant(0.0),tf.constant(-0.0)).numpy()))
q=Q.quantized_relu_po2(8)
print("relu_po2(8) on 0:", q(np.array([0.0,1e-30,-1.0],dtype='float32')).numpy())
# (3) gradient graph
for name,q in {'qb':Q.quantized_bits(4,1,1),'qrelu':Q.quantized_relu(4,1),'ql':Q.quantized_linear(4,1),'binary':Q.binary(),'qpo2':Q.quantized_po2(4), 'qtanh':Q.quantized_tanh(4)}.items():
    @tf.function
    def g(x):
        with tf.GradientTape() as t:
            t.watch(x); y=q(x)
        return t.gradient(y,x)
    cf=g.get_concrete_function(tf.TensorSpec((1,),tf.float32))
    ops=collections.Counter(op.type for op in cf.graph.get_operations())
    print("grad",name,dict(ops))
# (2) layer tracing with tensor weights
l=QDense(3,kernel_quantizer="quantized_bits(4,0,1)",bias_quantizer="quantized_bits(4,0,1)",activation="quantized_relu(4)")
l.build((None,5))
def tr(layer, names, shapes, xshape):
    @tf.function
    def f(x,*ws):
        for n,w in zip(names,ws):
            object.__setattr__(layer, n, w) if False else setattr(layer,n,w)
        return layer.call(x)
    return f.get_concrete_function(tf.TensorSpec(xshape,tf.float32), *[tf.TensorSpec(s,tf.float32) for s in shapes])
try:
    cf=tr(l,['kernel','bias'],[(5,3),(3,)],(2,5))
    print("QDense graph", dict(collections.Counter(op.type for op in cf.graph.get_operations())))
except Exception as e:
    print("QDense trace ERR", type(e).__name__, str(e)[:400])
