import os
os.environ['TF_CPP_MIN_LOG_LEVEL']='3'
import numpy as np, struct
from qkeras import quantizers as Q
def f(h): return np.frombuffer(struct.pack('>I',h),dtype='>f4')[0].astype('float32')
x=f(0xcd350503); print(x, Q.quantized_po2(4)(np.array([x],dtype='float32')).numpy())
x=f(0x4c9ffc00); print(x, Q.quantized_po2(8,4.0)(np.array([x],dtype='float32')).numpy())
print(Q.quantized_po2(4)(np.array([3e8,1e9,-5e8, 100.0, 1e5],dtype='float32')).numpy())
print(Q.quantized_bits(4,1)(np.array([3e8,1e9,-5e8],dtype='float32')).numpy())
