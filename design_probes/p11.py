import os
os.environ['TF_CPP_MIN_LOG_LEVEL']='3'
import numpy as np, tensorflow as tf, collections
import tensorflow.keras.backend as K
from qkeras import quantizers as Q
def ops(cf): return dict(collections.Counter(op.type for op in cf.graph.get_operations()))
def tr(q,shape): return tf.function(lambda x:q(x)).get_concrete_function(tf.TensorSpec(shape,tf.float32))
# 1 variable-backed qnoise
q=Q.quantized_bits(4,1,1,use_variables=True,qnoise_factor=0.5)
cf=tr(q,(1,)); print("var qnoise", ops(cf)); print(" captured:", [ (c[0].dtype, ) for c in cf.graph.captures], type(q.qnoise_factor))
q.update_qnoise_factor(0.25); print(" after update", float(q.qnoise_factor.numpy()), cf(tf.constant([0.3])).numpy())
# 2 stochastic with learning phase stub
for ph in (1,0):
    K.learning_phase=lambda ph=ph: ph
    for name,q in {'qb_sr':Q.quantized_bits(4,1,1,use_stochastic_rounding=True),'po2_sr':Q.quantized_po2(4,use_stochastic_rounding=True),'sbin':Q.stochastic_binary(alpha=1.0),'stern':Q.stochastic_ternary(alpha='auto'),'bin_sr':Q.binary(alpha=1.0,use_stochastic_rounding=True)}.items():
        try: print(ph,name, ops(tr(q,(2,2))))
        except Exception as e: print(ph,name,'ERR',type(e).__name__,str(e)[:200].replace('\n',' '))
# 3 grouped scales
q=Q.binary(alpha='auto_po2',scale_axis=0,elements_per_scale=2,min_po2_exponent=-3,max_po2_exponent=3)
print("binary grouped", ops(tr(q,(4,2))))
q=Q.quantized_bits(4,0,1,alpha='auto_po2',scale_axis=1,elements_per_scale=[2],) 
try: print("qb grouped", ops(tr(Q.quantized_bits(4,0,1,alpha='auto_po2',scale_axis=0,elements_per_scale=2),(4,2))))
except Exception as e: print('ERR',type(e).__name__,str(e)[:300])
