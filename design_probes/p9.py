import os, sys, time, subprocess
os.environ['TF_CPP_MIN_LOG_LEVEL']='3'
import numpy as np, tensorflow as tf
from qkeras import quantizers as Q
from tensorflow.python.framework import tensor_util
def fp_const(v):
    v=np.float32(v); b=int(np.frombuffer(v.tobytes(),dtype=np.uint32)[0])
    return f"((_ to_fp 8 24) #x{b:08x})"
class Sym:
    def __init__(s, e, sort='F'): s.e=e; s.sort=sort
def ftz(e): return f"(let ((r_ {e})) (ite (fp.isSubnormal r_) (ite (fp.isNegative r_) (_ -zero 8 24) (_ +zero 8 24)) r_))"
daz=ftz
DECLS=[]; ASSERTS=[]; N=[0]
def fresh(sort):
    N[0]+=1; n=f"v{N[0]}"; DECLS.append(f"(declare-const {n} {sort})"); return n
FP="(_ FloatingPoint 8 24)"
LN2=float(np.float32(np.log(2.0)))
def log_stub(a):
    L=fresh(FP); b=fresh("(_ BitVec 32)")
    ASSERTS.append(f"(= ((_ to_fp 8 24) {b}) {a})")
    k=f"(bvsub ((_ zero_extend 2) ((_ extract 30 23) {b})) #b0001111111)"   # 10-bit signed
    kf=f"((_ to_fp 8 24) RNE {k})"
    kf1=f"(fp.add RNE {kf} {fp_const(1.0)})"
    kfh=f"(fp.add RNE {kf} {fp_const(0.5)})"
    S=fp_const(3e-5)
    man=f"((_ extract 22 0) {b})"
    # sqrt2 mantissa = 0x3504f3 ; window +-0x400 (~1.2e-4 relative)
    ASSERTS.append(f"(=> (and (fp.isNormal {a}) (fp.isPositive {a})) (and (fp.leq (fp.sub RNE (fp.mul RNE {kf} {fp_const(LN2)}) {S}) {L}) (fp.leq {L} (fp.add RNE (fp.mul RNE {kf1} {fp_const(LN2)}) {S})) (=> (bvult {man} #b01101010000010011110011) (fp.leq {L} (fp.sub RNE (fp.mul RNE {kfh} {fp_const(LN2)}) {S}))) (=> (bvugt {man} #b01101010000010100010011) (fp.geq {L} (fp.add RNE (fp.mul RNE {kfh} {fp_const(LN2)}) {S}))) ))")
    return Sym(L)
def pow2_stub(e):
    r=fresh(FP)
    ei=f"((_ fp.to_sbv 12) RTZ {e})"
    exact=f"((_ to_fp 8 24) (concat #b0 ((_ extract 7 0) (bvadd {ei} #x07f)) #b00000000000000000000000))"
    isint=f"(fp.eq (fp.roundToIntegral RTZ {e}) {e})"
    ASSERTS.append(f"(=> (and {isint} (fp.geq {e} {fp_const(-126)}) (fp.leq {e} {fp_const(127)})) (= {r} {exact}))")
    ASSERTS.append(f"(=> (and {isint} (fp.lt {e} {fp_const(-126)})) (fp.isZero {r}))")
    return Sym(r)
def translate(cf, inputs):
    g=cf.graph; val={}
    ph=[op for op in g.get_operations() if op.type=='Placeholder']
    for op,i in zip(ph,inputs): val[op.outputs[0].name]=i
    def s(v):
        if isinstance(v,Sym): return v.e
        v=np.asarray(v); assert v.size==1
        if v.dtype==np.bool_: return 'true' if v.reshape(-1)[0] else 'false'
        return fp_const(v.reshape(-1)[0])
    for op in g.get_operations():
        if op.type=='Placeholder': continue
        ins=[val[t.name] for t in op.inputs]
        if op.type=='Const': val[op.outputs[0].name]=tensor_util.MakeNdarray(op.get_attr('value')); continue
        t=op.type
        if not any(isinstance(i,Sym) for i in ins):
            f={'Identity':lambda a:a,'StopGradient':lambda a:a,'Mul':lambda a,b:a*b,'AddV2':lambda a,b:a+b,'Sub':lambda a,b:a-b,'RealDiv':lambda a,b:a/b,'Neg':lambda a:-a,'Pow':lambda a,b:tf.pow(a,b).numpy(),'Cast':lambda a:a.astype('float32'),'Log':lambda a:tf.math.log(a).numpy()}[t]
            val[op.outputs[0].name]=np.asarray(f(*[np.asarray(i,dtype=np.float32) if np.asarray(i).dtype!=np.bool_ else i for i in ins])); continue
        a=[s(i) for i in ins]
        bin_={'Mul':'fp.mul RNE','AddV2':'fp.add RNE','Sub':'fp.sub RNE','RealDiv':'fp.div RNE'}
        if t in bin_: e=Sym(ftz(f"({bin_[t]} {daz(a[0])} {daz(a[1])})"))
        elif t=='Neg': e=Sym(f"(fp.neg {a[0]})")
        elif t=='Abs': e=Sym(f"(fp.abs {a[0]})")
        elif t=='Round': e=Sym(f"(fp.roundToIntegral RNE {daz(a[0])})")
        elif t=='Floor': e=Sym(f"(fp.roundToIntegral RTN {daz(a[0])})")
        elif t=='Maximum': e=Sym(f"(fp.max {a[0]} {a[1]})")
        elif t=='Minimum': e=Sym(f"(fp.min {a[0]} {a[1]})")
        elif t in('Identity','StopGradient'): e=Sym(a[0])
        elif t=='Relu': e=Sym(f"(fp.max {a[0]} (_ +zero 8 24))")
        elif t=='LessEqual': e=Sym(f"(fp.leq {a[0]} {a[1]})",'B')
        elif t=='Less': e=Sym(f"(fp.lt {a[0]} {a[1]})",'B')
        elif t=='GreaterEqual': e=Sym(f"(fp.geq {a[0]} {a[1]})",'B')
        elif t=='SelectV2': e=Sym(f"(ite {a[0]} {a[1]} {a[2]})")
        elif t=='Sign': e=Sym(f"(ite (fp.isZero {daz(a[0])}) (_ +zero 8 24) (ite (fp.isNegative {a[0]}) {fp_const(-1)} {fp_const(1)}))")
        elif t=='Log': e=log_stub(a[0])
        elif t=='Pow':
            assert float(np.asarray(ins[0]).reshape(-1)[0])==2.0; e=pow2_stub(a[1])
        else: raise NotImplementedError(t)
        # name intermediate to keep formula DAG-shaped
        n=fresh(FP if e.sort=='F' else 'Bool'); ASSERTS.append(f"(= {n} {e.e})"); val[op.outputs[0].name]=Sym(n,e.sort)
    return [val[o.name] for o in cf.outputs]
q=Q.quantized_po2(int(sys.argv[1]), max_value=(float(sys.argv[2]) if len(sys.argv)>2 else None))
cf=tf.function(lambda x:q(x)).get_concrete_function(tf.TensorSpec((1,),tf.float32))
out,=translate(cf,[Sym('x')])
mn,mx=q._min_exp,q._max_exp
smt="(set-logic QF_BVFP)\n(declare-const xb (_ BitVec 32))\n(define-fun x () (_ FloatingPoint 8 24) ((_ to_fp 8 24) xb))\n"+"\n".join(DECLS)+"\n"+"\n".join(f"(assert {a})" for a in ASSERTS)
smt+=f"""
(assert (or (fp.isNormal x) (fp.isZero x)))
(assert (fp.lt (fp.abs x) {fp_const(2.0**(24+mn))}))
(declare-const ob (_ BitVec 32))
(assert (= ((_ to_fp 8 24) ob) {out.e}))
(assert (or (not (= ((_ extract 22 0) ob) #b00000000000000000000000)) (bvult ((_ extract 30 23) ob) #x{127+mn:02x}) (bvugt ((_ extract 30 23) ob) #x{127+mx:02x}) (not (= (and (fp.isNegative x) (not (fp.isZero x))) (= ((_ extract 31 31) ob) #b1)))))
(check-sat)
(get-value (xb ob))
"""
open('po2.smt2','w').write(smt)
t=time.time(); r=subprocess.run(['cvc5','--produce-models','po2.smt2'],capture_output=True,text=True,timeout=1500)
print(sys.argv[1:], mn,mx, r.stdout.strip()[:300], r.stderr.strip()[:300], round(time.time()-t,1),'s')
