import os
os.environ['TF_CPP_MIN_LOG_LEVEL']='3'
import numpy as np, tensorflow as tf, traceback
import qkeras
from qkeras import *
def t(name, f):
    try:
        r=f(); print("OK ", name, r if r is not None else "")
    except BaseException as e:
        print("ERR", name, type(e).__name__, str(e).replace("\n"," ")[:200])
x4=np.random.rand(1,6,6,3).astype('float32'); x3=np.random.rand(1,6,3).astype('float32'); x2=np.random.rand(2,5).astype('float32')
qb="quantized_bits(4,0,1)"
t("QDense", lambda: QDense(3,kernel_quantizer=qb,bias_quantizer=qb)(x2).shape)
t("QDense act", lambda: QDense(3,kernel_quantizer=qb,bias_quantizer=qb,activation="quantized_relu(4)")(x2).shape)
t("QConv1D", lambda: QConv1D(2,3,kernel_quantizer=qb,bias_quantizer=qb)(x3).shape)
t("QConv2D", lambda: QConv2D(2,3,kernel_quantizer=qb,bias_quantizer=qb)(x4).shape)
t("QConv2D dil", lambda: QConv2D(2,3,dilation_rate=2,padding='same',kernel_quantizer=qb,bias_quantizer=qb)(x4).shape)
t("QDepthwiseConv2D", lambda: QDepthwiseConv2D(3,depthwise_quantizer=qb,bias_quantizer=qb)(x4).shape)
t("QSeparableConv2D", lambda: QSeparableConv2D(2,3,depthwise_quantizer=qb,pointwise_quantizer=qb,bias_quantizer=qb)(x4).shape)
t("QSeparableConv1D", lambda: QSeparableConv1D(2,3,depthwise_quantizer=qb,pointwise_quantizer=qb,bias_quantizer=qb)(x3).shape)
t("QConv2DTranspose", lambda: QConv2DTranspose(2,3,kernel_quantizer=qb,bias_quantizer=qb)(x4).shape)
t("QSimpleRNN", lambda: QSimpleRNN(2,kernel_quantizer=qb,recurrent_quantizer=qb,bias_quantizer=qb)(x3).shape)
t("QLSTM", lambda: QLSTM(2,kernel_quantizer=qb,recurrent_quantizer=qb,bias_quantizer=qb)(x3).shape)
t("QGRU", lambda: QGRU(2,kernel_quantizer=qb,recurrent_quantizer=qb,bias_quantizer=qb)(x3).shape)
t("QAveragePooling2D", lambda: QAveragePooling2D(2,average_quantizer=qb)(x4).shape)
t("QGlobalAveragePooling2D", lambda: QGlobalAveragePooling2D(average_quantizer=qb)(x4).shape)
from qkeras.qmac import QScaleShift
t("QScaleShift", lambda: QScaleShift(weight_quantizer=qb,bias_quantizer=qb)(x2).shape)
t("QActivation", lambda: QActivation("quantized_relu(4)")(x2).shape)
t("QBatchNormalization", lambda: QBatchNormalization()(x4).shape)
t("QConv2DBatchnorm", lambda: QConv2DBatchnorm(2,3,kernel_quantizer=qb,bias_quantizer=qb)(x4,training=False).shape)
t("QDepthwiseConv2DBatchnorm", lambda: QDepthwiseConv2DBatchnorm(3,depthwise_quantizer=qb,bias_quantizer=qb)(x4,training=False).shape)
import tensorflow.keras as keras
from tensorflow.keras import layers as L
def mk():
    i=L.Input((6,6,3)); h=L.Conv2D(2,3,name='c1')(i); h=L.Activation('relu',name='a1')(h); h=L.Flatten()(h); o=L.Dense(3,name='d1')(h)
    return keras.Model(i,o)
m=None
def mq():
    global m
    m=mk()
    from qkeras.utils import model_quantize
    qm=model_quantize(m,{"QConv2D":{"kernel_quantizer":qb,"bias_quantizer":qb},"QDense":{"kernel_quantizer":qb,"bias_quantizer":qb},"QActivation":{"relu":"quantized_relu(4)"}},4,transfer_weights=True)
    return [type(l).__name__ for l in qm.layers], qm
t("model_quantize", lambda: mq()[0])
qm=None
def g():
    global qm
    qm=mq()[1]
t("qm", g)
from qkeras import utils as U
t("clone_model", lambda: U.clone_model(qm) and None)
t("from_json", lambda: U.quantized_model_from_json(qm.to_json()) and None)
def h5():
    qm.save('/tmp/probe/m.h5'); return U.load_qmodel('/tmp/probe/m.h5') and None
t("h5", h5)
t("save_quantized_weights", lambda: list(U.model_save_quantized_weights(qm).keys()))
t("predict", lambda: qm.predict(x4,verbose=0).shape)
def qt():
    from qkeras.qtools import run_qtools
    q=run_qtools.QTools(qm,process="horowitz",source_quantizers=[quantized_bits(8,0,1)],is_inference=False,weights_path=None,keras_quantizer="fp32",keras_accumulator="fp32",for_reference=False)
    return list(q._output_dict.keys())
t("qtools", qt)
t("print_qstats", lambda: qkeras.print_qstats(qm))
def est():
    from qkeras.estimate import extract_model_operations
    return extract_model_operations(qm)
t("extract_model_operations", est)
t("autoqkeras import", lambda: __import__('qkeras.autoqkeras'))
t("unfold", lambda: __import__('qkeras.bn_folding_utils').bn_folding_utils.unfold_model(qm) and None)
