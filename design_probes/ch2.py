import ast
from qkeras.safe_eval import GetArg

def check_num(s: str) -> bool:
    """
    pre: 1 <= len(s) <= 4
    pre: all(c in '0123456789-+.e' for c in s)
    post: _
    """
    try:
        ref = ast.literal_eval(s)
    except Exception:
        return True
    if not isinstance(ref, (int, float)):
        return True
    got = GetArg(s)
    return got == ref and type(got) is type(ref)

def check_str(s: str) -> bool:
    """
    pre: 2 <= len(s) <= 5
    pre: s[0] == "'" and s[-1] == "'"
    pre: all(c in "abT1'" for c in s)
    pre: "'" not in s[1:-1]
    post: _
    """
    got = GetArg(s)
    return got == s[1:-1]
