import os
os.environ['TF_CPP_MIN_LOG_LEVEL']='3'
import numpy as np, tensorflow as tf, collections
import tensorflow.keras.backend as K
from qkeras import quantizers as Q
print("learning_phase" , hasattr(K,'learning_phase'), hasattr(K,'set_learning_phase'))
def trace(q, shape=(1,)):
    f=tf.function(lambda x: q(x))
    cf=f.get_concrete_function(tf.TensorSpec(shape, tf.float32))
    g=cf.graph
    ops=collections.Counter(op.type for op in g.get_operations())
    return cf, ops
tests={
 'qb': Q.quantized_bits(4,1,1),
 'qb_alpha': Q.quantized_bits(4,1,0,alpha=2.0),
 'qb1': Q.quantized_bits(1,0),
 'qb_nk': Q.quantized_bits(4,1,keep_negative=False),
 'ql': Q.quantized_linear(4,1),
 'qrelu': Q.quantized_relu(4,1),
 'qrelu_leaky': Q.quantized_relu(4,1,negative_slope=0.25),
 'qrelu_sig': Q.quantized_relu(4,1,use_sigmoid=1),
 'qtanh': Q.quantized_tanh(4),
 'qsig': Q.quantized_sigmoid(4),
 'qpo2': Q.quantized_po2(4),
 'qpo2mv': Q.quantized_po2(4,max_value=2),
 'qrpo2': Q.quantized_relu_po2(4,negative_slope=0.25),
 'binary': Q.binary(),
 'binary_a': Q.binary(alpha=2.0),
 'ternary': Q.ternary(alpha=1.0,threshold=0.5),
 'hswish': Q.quantized_hswish(6,2),
 'ulaw': Q.quantized_ulaw(4,1),
}
for k,q in tests.items():
    try:
        cf,ops=trace(q)
        print(k, dict(ops))
    except Exception as e:
        print(k,'ERR',type(e).__name__, str(e)[:300])
for k,q in {'binary_auto':Q.binary(alpha='auto'),'binary_po2':Q.binary(alpha='auto_po2'),'tern_auto':Q.ternary(alpha='auto'),'qb_auto':Q.quantized_bits(4,1,alpha='auto'),'qb_autopo2':Q.quantized_bits(4,1,alpha='auto_po2'),'ql_auto':Q.quantized_linear(4,1,alpha='auto'),'ql_autopo2':Q.quantized_linear(4,1,alpha='auto_po2')}.items():
    try:
        cf,ops=trace(q,(3,2))
        print(k, dict(ops))
    except Exception as e:
        print(k,'ERR',type(e).__name__, str(e)[:300])
for k,q in {'qb_sr':Q.quantized_bits(4,1,use_stochastic_rounding=True),'sbin':Q.stochastic_binary(),'stern':Q.stochastic_ternary(alpha='auto'),'bern':Q.bernoulli()}.items():
    try:
        cf,ops=trace(q,(3,2))
        print(k, dict(ops))
    except Exception as e:
        print(k,'ERR',type(e).__name__, str(e)[:300])
