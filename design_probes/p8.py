import os, time
os.environ['TF_CPP_MIN_LOG_LEVEL']='3'
import z3
from qkeras.qtools.quantized_operators import multiplier_impl, multiplier_factory, quantizer_impl, accumulator_impl, accumulator_factory, adder_impl

class Fork(Exception): pass
class Ctx:
    def __init__(s): s.pc=[]; s.decisions=[]; s.pos=0; s.solver=z3.Solver()
CTX=None
class SB:
    def __init__(s,e): s.e=e
    def __bool__(s):
        c=CTX
        if c.pos<len(c.decisions): d=c.decisions[c.pos]
        else:
            # choose feasible branch, prefer True
            c.solver.push(); c.solver.add(*c.pc, s.e); t=c.solver.check()==z3.sat; c.solver.pop()
            c.solver.push(); c.solver.add(*c.pc, z3.Not(s.e)); f=c.solver.check()==z3.sat; c.solver.pop()
            d=True if t else False
            c.decisions.append(d); c.both=getattr(c,'both',[])+[t and f]
        c.pos+=1; c.pc.append(s.e if d else z3.Not(s.e)); return d
    def __or__(s,o): return SB(z3.Or(s.e, tob(o)))
    __ror__=__or__
    def __and__(s,o): return SB(z3.And(s.e, tob(o)))
    def __int__(s): return SI(z3.If(s.e,1,0))
    def __index__(s): raise TypeError
def tob(o):
    if isinstance(o,SB): return o.e
    if isinstance(o,SI): return o.e!=0
    return bool(o)
def toi(o):
    if isinstance(o,SI): return o.e
    if isinstance(o,SB): return z3.If(o.e,1,0)
    if isinstance(o,bool): return int(o)
    return o
class SI:
    def __init__(s,e): s.e=e
    def __add__(s,o): return SI(s.e+toi(o))
    __radd__=__add__
    def __sub__(s,o): return SI(s.e-toi(o))
    def __rsub__(s,o): return SI(toi(o)-s.e)
    def __mul__(s,o): return SI(s.e*toi(o))
    __rmul__=__mul__
    def __neg__(s): return SI(-s.e)
    def __or__(s,o): return SI(z3.If(z3.Or(s.e!=0, tob(o)),1,0))   # only for 0/1 flags
    __ror__=__or__
    def __lt__(s,o): return SB(s.e<toi(o))
    def __le__(s,o): return SB(s.e<=toi(o))
    def __gt__(s,o): return SB(s.e>toi(o))
    def __ge__(s,o): return SB(s.e>=toi(o))
    def __eq__(s,o): return SB(s.e==toi(o))
    def __ne__(s,o): return SB(s.e!=toi(o))
    def __bool__(s): return bool(SB(s.e!=0))
    def __hash__(s): return id(s)
    def __deepcopy__(s,memo): return s
    def sqrt(s): return SI(z3.FreshInt('sqrt'))
    def log10(s): return SI(z3.FreshInt('log10'))
    def log2(s): return SI(z3.FreshInt('log2'))
def sym_int(x): return x if isinstance(x,(SI,)) else (SI(z3.If(x.e,1,0)) if isinstance(x,SB) else int(x))
def sym_max(*a):
    r=a[0]
    for b in a[1:]:
        if isinstance(r,(SI,SB)) or isinstance(b,(SI,SB)): r=SI(z3.If(toi(r)>=toi(b),toi(r),toi(b)))
        else: r=max(r,b)
    return r
for m in (multiplier_impl, accumulator_impl, adder_impl, quantizer_impl):
    m.int=sym_int; m.max=sym_max

def explore(fn):
    global CTX
    todo=[[]]; paths=[]
    while todo:
        dec=todo.pop()
        CTX=Ctx(); CTX.decisions=list(dec); CTX.both=[False]*len(dec)
        res=fn()
        paths.append((list(CTX.pc),res))
        for i in range(len(dec),len(CTX.decisions)):
            if CTX.both[i]: todo.append(CTX.decisions[:i]+[not CTX.decisions[i]])
    return paths

def mkq(prefix, signed_sym=True):
    q=quantizer_impl.QuantizedBits()
    q.bits=SI(z3.Int(prefix+'_b')); q.int_bits=SI(z3.Int(prefix+'_i')); q.is_signed=SI(z3.Int(prefix+'_s'))
    return q
def fn():
    w=mkq('w'); x=mkq('x')
    m=multiplier_factory.MultiplierFactory().make_multiplier(w,x)
    return m
t=time.time()
paths=explore(fn)
print(len(paths),'paths', time.time()-t)
for pc,m in paths:
    o=m.output
    print(type(m).__name__, z3.simplify(toi(o.bits)), '|', z3.simplify(toi(o.int_bits)), '|', z3.simplify(toi(o.is_signed)))
# property: product of any two codes representable
pc,m=paths[0]; o=m.output
B=lambda n:z3.Int(n)
wb,wi,ws,xb,xi,xs=[B(n) for n in 'w_b w_i w_s x_b x_i x_s'.split()]
kw,kx=z3.Ints('kw kx')
def pow2(e):  # 2**e for e in [0,40] via ite chain
    r=z3.IntVal(1<<40)
    for k in range(39,-1,-1): r=z3.If(e==k, z3.IntVal(1<<k), r)
    return r
s=z3.Solver()
dom=[z3.And(b>=1,b<=16, z3.Or(sg==0,sg==1), i>=0, i<=b-sg) for b,i,sg in ((wb,wi,ws),(xb,xi,xs))]
s.add(*dom,*pc)
s.add(kw>=-ws*pow2(wb-ws), kw<=pow2(wb-ws)-1, kx>=-xs*pow2(xb-xs), kx<=pow2(xb-xs)-1)
ob,oi,os_=toi(o.bits),toi(o.int_bits),toi(o.is_signed)
fw=wb-ws-wi; fx=xb-xs-xi; fo=ob-os_-oi
# value = kw*kx * 2^-(fw+fx); representable iff fo>=fw+fx (here equal) and code in range
code=kw*kx
bad=z3.Or(fo<fw+fx, z3.And(fo==fw+fx, z3.Or(code < -os_*pow2(ob-os_), code > pow2(ob-os_)-1)))
# exclude product of two most-negative codes
excl=z3.And(ws==1,xs==1,kw==-pow2(wb-1),kx==-pow2(xb-1))
s.add(bad, z3.Not(excl))
t=time.time(); r=s.check(); print(r, time.time()-t)
if r==z3.sat: print(s.model())
