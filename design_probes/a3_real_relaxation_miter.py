# real-arithmetic relaxation of a traced graph (z3 NRA) for cheap counterexample search
import os, sys, time
os.environ['TF_CPP_MIN_LOG_LEVEL']='3'
import numpy as np, tensorflow as tf, z3
from qkeras import quantizers as Q
from tensorflow.python.framework import tensor_util
def lift(v):
    if isinstance(v,np.ndarray) and v.dtype==object: return v
    v=np.asarray(v); out=np.empty(v.shape,dtype=object)
    for idx in np.ndindex(v.shape):
        out[idx]=z3.BoolVal(bool(v[idx])) if v.dtype==np.bool_ else z3.RealVal(repr(float(v[idx]))) if True else None
    return out
def is_sym(v): return isinstance(v,np.ndarray) and v.dtype==object
def ew(f,*arrs):
    arrs=[lift(a) for a in arrs]; bs=np.broadcast(*arrs); out=np.empty(bs.shape,dtype=object)
    bc=[np.broadcast_to(a,bs.shape) for a in arrs]
    for idx in np.ndindex(bs.shape): out[idx]=f(*[a[idx] for a in bc])
    return out
def rnd(a):  # round half even on reals
    fl=z3.ToReal(z3.ToInt(a)); fr=a-fl
    return z3.If(fr<0.5,fl,z3.If(fr>0.5,fl+1,z3.If(z3.ToInt(a)%2==0,fl,fl+1)))
def translate(cf,inputs):
    g=cf.graph; val={}
    ph=[op for op in g.get_operations() if op.type=='Placeholder']
    for op,i in zip(ph,inputs): val[op.outputs[0].name]=i
    for op in g.get_operations():
        if op.type=='Placeholder': continue
        ins=[val[t.name] for t in op.inputs]; t=op.type
        if t=='Const': val[op.outputs[0].name]=tensor_util.MakeNdarray(op.get_attr('value')); continue
        if not any(is_sym(i) for i in ins):
            f={'Identity':lambda a:a,'StopGradient':lambda a:a,'Range':lambda a,b,c:np.arange(a,b,c),'Maximum':np.maximum,'Sub':lambda a,b:a-b,'Pow':lambda a,b:np.power(a,b),'Mul':lambda a,b:a*b,'AddV2':lambda a,b:a+b,'RealDiv':lambda a,b:a/b,'Neg':lambda a:-a,'ConcatV2':lambda *a:np.concatenate(a[:-1],axis=int(a[-1]))}[t]
            val[op.outputs[0].name]=np.asarray(f(*ins)); continue
        if t=='Mul': r=ew(lambda a,b:a*b,*ins)
        elif t=='AddV2': r=ew(lambda a,b:a+b,*ins)
        elif t=='Sub': r=ew(lambda a,b:a-b,*ins)
        elif t=='RealDiv': r=ew(lambda a,b:a/b,*ins)
        elif t=='Neg': r=ew(lambda a:-a,*ins)
        elif t=='Abs': r=ew(lambda a:z3.If(a>=0,a,-a),*ins)
        elif t=='Sign': r=ew(lambda a:z3.If(a>0,z3.RealVal(1),z3.If(a<0,z3.RealVal(-1),z3.RealVal(0))),*ins)
        elif t=='Round': r=ew(rnd,*ins)
        elif t in('Identity','StopGradient'): r=ins[0]
        elif t in('Mean','Sum','Max'):
            x=ins[0]; ax=tuple(int(i)%x.ndim for i in np.atleast_1d(ins[1])); keep=op.get_attr('keep_dims')
            xm=np.moveaxis(x,ax,range(len(ax))); n=int(np.prod(xm.shape[:len(ax)])); xm=xm.reshape((n,)+xm.shape[len(ax):])
            acc=xm[0]
            for k in range(1,n): acc=ew((lambda a,b:a+b) if t!='Max' else (lambda a,b:z3.If(a>=b,a,b)),acc,xm[k])
            acc=np.asarray(acc,dtype=object)
            if t=='Mean': acc=ew(lambda a:a/n,acc)
            if keep: acc=acc.reshape([1 if i in ax else s for i,s in enumerate(x.shape)])
            r=acc
        else: raise NotImplementedError(t)
        val[op.outputs[0].name]=r
    return [val[o.name] for o in cf.outputs]
shape=(2,2)
qa=Q.binary(alpha='auto',scale_axis=0); qb=type(qa).from_config(qa.get_config())
X=np.empty(shape,dtype=object)
for idx in np.ndindex(shape): X[idx]=z3.Real("x"+"_".join(map(str,idx)))
outs=[translate(tf.function(lambda x:q(x)).get_concrete_function(tf.TensorSpec(shape,tf.float32)),[X])[0] for q in (qa,qb)]
s=z3.Solver()
for x in X.reshape(-1): s.add(z3.Or(x==0, z3.And(x>=z3.Q(1,1024), x<=1024), z3.And(x<=-z3.Q(1,1024), x>=-1024)))
s.add(z3.Or(*[outs[0][i,j]-outs[1][i,j] > z3.Q(1,100) for i in range(2) for j in range(2)]+[outs[1][i,j]-outs[0][i,j] > z3.Q(1,100) for i in range(2) for j in range(2)]))
t=time.time(); r=s.check(); print(r, round(time.time()-t,2),'s')
if r==z3.sat:
    m=s.model(); x=np.array([float(m.eval(v,model_completion=True).as_fraction()) for v in X.reshape(-1)],dtype='float32').reshape(shape)
    print(x); print(qa(x).numpy()); print(qb(x).numpy())
