import os
os.environ['TF_CPP_MIN_LOG_LEVEL']='3'
import numpy as np, tensorflow as tf, collections
from qkeras import *
import tensorflow.keras as keras
from tensorflow.python.framework import tensor_util
def term(cf):
    g=cf.graph; memo={}
    phn={op.outputs[0].name:f"in{i}" for i,op in enumerate(op for op in g.get_operations() if op.type=='Placeholder')}
    def T(t):
        if t.name in memo: return memo[t.name]
        op=t.op
        if op.type=='Placeholder': r=phn[t.name]
        elif op.type=='Const':
            v=tensor_util.MakeNdarray(op.get_attr('value')); r=f"c{v.tolist()}" if v.size<=8 else f"c<{v.shape}>"
        elif op.type in('Identity','StopGradient'): r=T(op.inputs[0])
        else:
            attrs={a.name:op.get_attr(a.name) for a in op.op_def.attr if a.name in('strides','padding','dilations','data_format','ksize','keep_dims','transpose_a','transpose_b','explicit_paddings')}
            r=f"{op.type}{attrs if attrs else ''}("+", ".join(T(i) for i in op.inputs)+")"
        memo[t.name]=r; return r
    return [T(o) for o in cf.outputs]
def tr(layer, names, shapes, xshape):
    @tf.function
    def f(x,*ws):
        for n,w in zip(names,ws): object.__setattr__(layer, n, w)
        return layer.call(x)
    return f.get_concrete_function(tf.TensorSpec(xshape,tf.float32), *[tf.TensorSpec(s,tf.float32) for s in shapes])
def show(n,l,names,shapes,xs,bshape):
    try:
        l.build(bshape); print(n, term(tr(l,names,shapes,xs))[0][:700])
    except Exception as e: print(n,'ERR',type(e).__name__,str(e)[:300].replace('\n',' '))
show("QDense", QDense(3), ['_kernel','bias'],[(5,3),(3,)],(2,5),(None,5))
show("Dense ", keras.layers.Dense(3), ['_kernel','bias'],[(5,3),(3,)],(2,5),(None,5))
show("QConv2D", QConv2D(2,3,strides=2,padding='same'), ['_kernel','bias'],[(3,3,3,2),(2,)],(1,6,6,3),(None,6,6,3))
show("Conv2D ", keras.layers.Conv2D(2,3,strides=2,padding='same'), ['_kernel','bias'],[(3,3,3,2),(2,)],(1,6,6,3),(None,6,6,3))
show("QConv1D", QConv1D(2,3,padding='causal',dilation_rate=2), ['_kernel','bias'],[(3,3,2),(2,)],(1,6,3),(None,6,3))
show("Conv1D ", keras.layers.Conv1D(2,3,padding='causal',dilation_rate=2), ['_kernel','bias'],[(3,3,2),(2,)],(1,6,3),(None,6,3))
show("QDW", QDepthwiseConv2D(3,depth_multiplier=2), ['depthwise_kernel','bias'],[(3,3,3,2),(6,)],(1,6,6,3),(None,6,6,3))
show("DW ", keras.layers.DepthwiseConv2D(3,depth_multiplier=2), ['_kernel','bias'],[(3,3,3,2),(6,)],(1,6,6,3),(None,6,6,3))
show("QSep", QSeparableConv2D(2,3), ['depthwise_kernel','pointwise_kernel','bias'],[(3,3,3,1),(1,1,3,2),(2,)],(1,6,6,3),(None,6,6,3))
show("Sep ", keras.layers.SeparableConv2D(2,3), ['depthwise_kernel','pointwise_kernel','bias'],[(3,3,3,1),(1,1,3,2),(2,)],(1,6,6,3),(None,6,6,3))
show("QSep1", QSeparableConv1D(2,3), ['depthwise_kernel','pointwise_kernel','bias'],[(3,3,1),(1,3,2),(2,)],(1,6,3),(None,6,3))
show("Sep1 ", keras.layers.SeparableConv1D(2,3), ['depthwise_kernel','pointwise_kernel','bias'],[(3,3,1),(1,3,2),(2,)],(1,6,3),(None,6,3))
f=lambda l: tf.function(lambda x:l.call(x)).get_concrete_function(tf.TensorSpec((1,4,4,2),tf.float32))
print("QAvg", term(f(QAveragePooling2D(2)))[0][:300]); print("Avg ", term(f(keras.layers.AveragePooling2D(2)))[0][:300])
print("QGAvg", term(f(QGlobalAveragePooling2D(average_quantizer="quantized_bits(8,0,1)")))[0][:500]); print("GAvg ", term(f(keras.layers.GlobalAveragePooling2D()))[0][:300])
