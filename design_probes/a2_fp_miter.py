import sys, time, subprocess
from a1_array_translator import *
shape=(2,2)
qa=Q.binary(alpha='auto',scale_axis=0); qb=type(qa).from_config(qa.get_config())
C=Ctx(); stubs=[]
X=np.empty(shape,dtype=object)
for idx in np.ndindex(shape): X[idx]=T("x"+"_".join(map(str,idx)))
outs=[]
for q in (qa,qb):
    cf=tf.function(lambda x:q(x)).get_concrete_function(tf.TensorSpec(shape,tf.float32))
    (o,),_=translate(C,cf,[X],stubs); outs.append(o)
hdr="(set-logic QF_BVFP)\n"+"".join(f"(declare-const b{x.e} (_ BitVec 32))\n(define-fun {x.e} () {FP} ((_ to_fp 8 24) b{x.e}))\n" for x in X.reshape(-1))
dom="".join(f"(assert (not (fp.isNaN {x.e}))) (assert (fp.lt (fp.abs {x.e}) {fp_const(2.0**20)})) (assert (or (fp.isZero {x.e}) (fp.geq (fp.abs {x.e}) {fp_const(2.0**-20)})))\n" for x in X.reshape(-1))
bad=" ".join(f"(not (fp.eq {outs[0][i,j].e} {outs[1][i,j].e}))" for i in range(2) for j in range(2))
smt=hdr+"\n".join(C.decl)+"\n"+"\n".join(f"(assert {a})" for a in C.asrt)+"\n"+dom+f"(assert (or {bad}))\n(check-sat)\n(get-value ({' '.join('b'+x.e for x in X.reshape(-1))}))\n"
open('miter.smt2','w').write(smt)
t=time.time(); r=subprocess.run(['cvc5','--produce-models','miter.smt2'],capture_output=True,text=True,timeout=3000)
print(r.stdout.strip()[:400].replace('\n',' '), round(time.time()-t,1),'s')
import re, struct
vals=[int(b,2) for b in re.findall(r'#b([01]{32})',r.stdout)]
if vals:
    x=np.array([np.frombuffer(struct.pack('>I',v),dtype='>f4')[0] for v in vals],dtype='float32').reshape(shape)
    print(x); print(qa(x).numpy()); print(qb(x).numpy())
