import os
os.environ['TF_CPP_MIN_LOG_LEVEL']='3'
import numpy as np, tensorflow as tf
import tensorflow.keras.backend as K
from qkeras import quantizers as Q
def t(name,f):
    try: print("OK ",name, f())
    except BaseException as e: print("ERR",name,type(e).__name__,str(e)[:160].replace("\n"," "))
x=np.array([[0.1,2.0],[-3.0,0.04]],dtype='float32')
def rt(q):
    q2=type(q).from_config(q.get_config()); return np.array_equal(q(x).numpy(), q2(x).numpy())
t("qb scale_axis rt", lambda: rt(Q.quantized_bits(4,0,1,alpha='auto_po2',scale_axis=0)))
t("qb use_ste rt", lambda: rt(Q.quantized_bits(4,0,1,use_ste=False,qnoise_factor=0.5)))
t("binary scale_axis rt", lambda: rt(Q.binary(alpha='auto',scale_axis=0)))
t("relu is_quantized_clip rt", lambda: rt(Q.quantized_relu(4,0,is_quantized_clip=False,relu_upper_bound=6.0)))
t("ql scale_axis rt", lambda: rt(Q.quantized_linear(4,0,alpha='auto',scale_axis=0)))
t("bernoulli temp cfg", lambda: Q.bernoulli(temperature=2.0).get_config())
t("str hswish", lambda: str(Q.quantized_hswish(6,2)))
t("str ql tensor alpha", lambda: str(Q.quantized_linear(4,1,alpha=np.array([2.0]))))
t("str po2 sr", lambda: str(Q.quantized_po2(4,use_stochastic_rounding=True)))
t("str po2 mv .5", lambda: str(Q.quantized_po2(4,max_value=0.5)))
t("str binary list", lambda: (str(Q.binary(alpha='auto',scale_axis=[0,1],elements_per_scale=[2,2]))))
t("reparse binary list", lambda: Q.get_quantizer(str(Q.binary(alpha='auto',scale_axis=[0,1],elements_per_scale=[2,2]))).scale_axis)
t("reparse qb", lambda: str(Q.get_quantizer(str(Q.quantized_bits(4,1,1,alpha='auto_po2',use_stochastic_rounding=True)))))
t("str qrelu slope", lambda: (str(Q.quantized_relu(4,1,negative_slope=0.25)), Q.get_quantizer(str(Q.quantized_relu(4,1,negative_slope=0.25))).negative_slope, Q.get_quantizer(str(Q.quantized_relu(4,1,negative_slope=0.25))).use_sigmoid))
t("str qtanh sym", lambda: (str(Q.quantized_tanh(4,symmetric=True)), Q.get_quantizer(str(Q.quantized_tanh(4,symmetric=True))).symmetric, Q.get_quantizer(str(Q.quantized_tanh(4,symmetric=True))).use_stochastic_rounding))
t("str relu_po2 slope", lambda: (str(Q.quantized_relu_po2(4,negative_slope=0.25)), Q.get_quantizer(str(Q.quantized_relu_po2(4,negative_slope=0.25))).max_value))
K.learning_phase=lambda:0
t("binary sr infer (2,3)", lambda: Q.binary(alpha=1.0,use_stochastic_rounding=True)(np.zeros((2,3),'float32')).numpy())
t("binary sr infer (3,)", lambda: Q.binary(alpha=1.0,use_stochastic_rounding=True)(np.array([0.,1.,-1.],'float32')).numpy())
# qb max() with alpha
q=Q.quantized_bits(4,1,1,alpha=2.0); t("qb alpha max", lambda: (q.max(), q(np.array([100.],'float32')).numpy()))
q=Q.quantized_relu(4,1,negative_slope=0.25); t("qrelu leaky min/max", lambda: (q.min(), q.max(), q(np.array([-100.,100.],'float32')).numpy()))
q=Q.quantized_po2(4,max_value=0.5); t("po2 mv .5 min/max", lambda: (q.min(), q.max(), q._min_exp,q._max_exp, q(np.array([-100.,100.,1e-9],'float32')).numpy()))
