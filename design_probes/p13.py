import os, sys, time, subprocess
os.environ['TF_CPP_MIN_LOG_LEVEL']='3'
src=open(os.path.join(os.path.dirname(os.path.abspath(__file__)),'p9.py')).read()
pre=src.split("q=Q.quantized_po2(")[0]
pre=pre.replace("        elif t=='Log': e=log_stub(a[0])","        elif t=='OnesLike': e=Sym(fp_const(1.0))\n        elif t=='Log': e=log_stub(a[0])")
exec(pre)
bits=int(sys.argv[1]); integer=int(sys.argv[2]); po2=sys.argv[3]=='po2'
q=Q.quantized_bits(bits,integer,1,alpha='auto_po2' if po2 else 'auto')
def f(x,s):
    q.scale=s; q.freeze_scale=True
    return q(x)
cf=tf.function(f).get_concrete_function(tf.TensorSpec((1,),tf.float32),tf.TensorSpec((1,),tf.float32))
import collections; print(collections.Counter(op.type for op in cf.graph.get_operations()))
out,=translate(cf,[Sym('x'),Sym('s')])
levels=(2**(bits-1)-1)*2
smt="(set-logic QF_BVFP)\n(declare-const xb (_ BitVec 32))\n(declare-const sb (_ BitVec 32))\n(define-fun x () (_ FloatingPoint 8 24) ((_ to_fp 8 24) xb))\n(define-fun s () (_ FloatingPoint 8 24) ((_ to_fp 8 24) sb))\n"+"\n".join(DECLS)+"\n"+"\n".join(f"(assert {a})" for a in ASSERTS)
po2c="(assert (= ((_ extract 22 0) sb) #b00000000000000000000000))" if po2 else ""
# exposed scale is s (we set q.scale = s, code uses s/m as working scale and multiplies back by m): out must equal s * (m_i*z/m) with z integer |z|<=levels/2
# check: code = out / (s * 2^(integer-(bits-1)))  is integral and |code|<=levels/2
stepk=integer-(bits-1)
smt+=f"""
{po2c}
(assert (= ((_ extract 31 31) sb) #b0))
(assert (bvuge ((_ extract 30 23) sb) #x{127-20:02x})) (assert (bvule ((_ extract 30 23) sb) #x{127+20:02x}))
(assert (or (fp.isNormal x) (fp.isZero x)))
(assert (fp.lt (fp.abs x) (fp.mul RNE s {fp_const(2.0**(20+stepk))})))
(define-fun unit () (_ FloatingPoint 8 24) (fp.mul RNE s {fp_const(2.0**stepk)}))
(define-fun code () (_ FloatingPoint 8 24) (fp.div RNE {out.e} unit))
(assert (or (not (fp.eq (fp.roundToIntegral RNE code) code)) (fp.gt (fp.abs code) {fp_const(levels/2)}) (not (fp.eq (fp.mul RNE code unit) {out.e}))))
(check-sat)
(get-value (xb sb))
"""
open('c05.smt2','w').write(smt)
t=time.time(); r=subprocess.run(['cvc5','--produce-models','c05.smt2'],capture_output=True,text=True,timeout=3000)
print(sys.argv[1:], r.stdout.strip()[:300], r.stderr.strip()[:300], round(time.time()-t,1),'s')
